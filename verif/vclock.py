"""Virtual clock substituted for the module-level time/datetime names of pynenc.

pynenc reaches the clock only through module-level names (`from time import time`,
`import time`, `from datetime import datetime`, `import datetime`), so the harness
replaces those attributes in the live modules.  Integer microseconds inside.

Modes: tick_us=0 (stepped: reads do not advance time) or tick_us>0 (every read
advances by tick_us, so no two reads tie).
"""

from __future__ import annotations

import datetime as _dt
import importlib
import sys
import time as _real_time
import types
from typing import Any, Callable

REAL_DATETIME = _dt.datetime
UTC = _dt.UTC

TIME_MODULES = [
    "pynenc.invocation.dist_invocation",
    "pynenc.orchestrator.base_orchestrator",
    "pynenc.orchestrator.mem_orchestrator",
    "pynenc.orchestrator.sqlite_orchestrator",
    "pynenc.runner.base_runner",
    "pynenc.runner.thread_runner",
    "pynenc.runner.multi_thread_runner",
    "pynenc.runner.persistent_process_runner",
    "pynenc.runner.process_runner",
    "pynenc.task",
    "pynenc.util.sqlite_utils",
    "pynenc.invocation.status",
    "pynenc.state_backend.base_state_backend",
    "pynenc.state_backend.mem_state_backend",
    "pynenc.state_backend.sqlite_state_backend",
    "pynenc.trigger.base_trigger",
    "pynenc.trigger.conditions.base",
    "pynenc.trigger.conditions.cron",
    "pynenc.trigger.mem_trigger",
    "pynenc.trigger.sqlite_trigger",
    "pynenc.trigger.trigger_context",
    "pynenc.trigger.trigger_events",
    "pynenc.workflow.workflow_context",
    "pynenc.workflow.workflow_deterministic",
    "pynenc.orchestrator.atomic_service",
]


class VClock:
    def __init__(self, start_us: int = 1_700_000_000_000_000, tick_us: int = 0) -> None:
        self.us = start_us
        self.tick_us = tick_us
        self.sleep_hook: Callable[[float], None] | None = None

    # readers ---------------------------------------------------------------
    def _read(self) -> int:
        v = self.us
        self.us += self.tick_us
        return v

    def time(self) -> float:
        return self._read() / 1_000_000

    def now(self, tz: Any = None) -> _dt.datetime:
        us = self._read()
        base = REAL_DATETIME(1970, 1, 1, tzinfo=UTC) + _dt.timedelta(microseconds=us)
        if tz is None:
            return base.replace(tzinfo=None)
        return base.astimezone(tz)

    def advance(self, seconds: float) -> None:
        self.us += int(round(seconds * 1_000_000))

    def set(self, seconds: float) -> None:
        self.us = int(round(seconds * 1_000_000))

    def sleep(self, seconds: float) -> None:
        if self.sleep_hook is not None:
            self.sleep_hook(seconds)
        else:
            self.advance(max(0.0, seconds))


class _DTMeta(type):
    def __instancecheck__(cls, obj: Any) -> bool:
        return isinstance(obj, REAL_DATETIME)

    def __subclasscheck__(cls, sub: Any) -> bool:
        return issubclass(sub, REAL_DATETIME)

    def __call__(cls, *a: Any, **k: Any) -> Any:
        return REAL_DATETIME(*a, **k)

    def __getattr__(cls, name: str) -> Any:
        return getattr(REAL_DATETIME, name)


def make_datetime_shim(clock: VClock) -> Any:
    class datetime(metaclass=_DTMeta):  # noqa: N801 - mimics the stdlib name
        @staticmethod
        def now(tz: Any = None) -> _dt.datetime:
            return clock.now(tz)

        @staticmethod
        def utcnow() -> _dt.datetime:
            return clock.now(None)

        @staticmethod
        def today() -> _dt.datetime:
            return clock.now(None)

    return datetime


class _TimeModuleShim(types.SimpleNamespace):
    pass


def make_time_module_shim(clock: VClock) -> Any:
    shim = _TimeModuleShim()
    for name in dir(_real_time):
        if not name.startswith("__"):
            setattr(shim, name, getattr(_real_time, name))
    shim.time = clock.time
    shim.sleep = clock.sleep
    shim.monotonic = clock.time
    shim.perf_counter = clock.time
    return shim


def make_datetime_module_shim(clock: VClock, dtshim: Any) -> Any:
    shim = types.SimpleNamespace()
    for name in dir(_dt):
        if not name.startswith("__"):
            setattr(shim, name, getattr(_dt, name))
    shim.datetime = dtshim
    return shim


class Installed:
    def __init__(self) -> None:
        self.saved: list[tuple[Any, str, Any]] = []

    def uninstall(self) -> None:
        for mod, name, old in reversed(self.saved):
            setattr(mod, name, old)
        self.saved.clear()


def install(clock: VClock, modules: list[str] | None = None) -> Installed:
    """Replace time/datetime names in the listed pynenc modules."""
    inst = Installed()
    dtshim = make_datetime_shim(clock)
    tmod = make_time_module_shim(clock)
    dmod = make_datetime_module_shim(clock, dtshim)
    for modname in modules or TIME_MODULES:
        try:
            mod = importlib.import_module(modname)
        except ImportError:
            continue
        for name in ("time", "_time"):
            if hasattr(mod, name):
                cur = getattr(mod, name)
                if cur is _real_time or isinstance(cur, _TimeModuleShim):
                    inst.saved.append((mod, name, cur))
                    setattr(mod, name, tmod)
                elif cur is _real_time.time or getattr(cur, "__self__", None).__class__ is VClock:
                    inst.saved.append((mod, name, cur))
                    setattr(mod, name, clock.time)
        if hasattr(mod, "sleep") and getattr(mod, "sleep") is _real_time.sleep:
            inst.saved.append((mod, "sleep", mod.sleep))
            mod.sleep = clock.sleep
        if hasattr(mod, "datetime"):
            cur = getattr(mod, "datetime")
            if cur is REAL_DATETIME or isinstance(cur, _DTMeta):
                inst.saved.append((mod, "datetime", cur))
                setattr(mod, "datetime", dtshim)
            elif cur is _dt or isinstance(cur, types.SimpleNamespace):
                inst.saved.append((mod, "datetime", cur))
                setattr(mod, "datetime", dmod)
    return inst


# ---------------------------------------------------------------------------- deterministic uuid4

import uuid as _real_uuid

UUID_MODULES = [
    "pynenc.identifiers.invocation_id",
    "pynenc.runner.runner_context",
    "pynenc.runner.persistent_process_runner",
    "pynenc.trigger.trigger_events",
]


class DetUUID:
    """uuid module stand-in whose uuid4() is a counter (control flow that depends on set
    iteration order of ids becomes reproducible together with PYTHONHASHSEED=0)."""

    def __init__(self) -> None:
        self.n = 0
        for name in dir(_real_uuid):
            if not name.startswith("__") and name != "uuid4":
                setattr(self, name, getattr(_real_uuid, name))

    def reset(self, start: int = 0) -> None:
        self.n = start

    def uuid4(self) -> _real_uuid.UUID:
        self.n += 1
        # spread the counter over the value so that string prefixes differ
        v = (self.n * 0x9E3779B97F4A7C15) & ((1 << 64) - 1)
        return _real_uuid.UUID(int=(v << 64) | self.n)


def install_uuid(det: DetUUID, inst: Installed | None = None) -> Installed:
    inst = inst or Installed()
    for modname in UUID_MODULES:
        try:
            mod = importlib.import_module(modname)
        except ImportError:
            continue
        if hasattr(mod, "uuid"):
            inst.saved.append((mod, "uuid", getattr(mod, "uuid")))
            setattr(mod, "uuid", det)
    return inst
