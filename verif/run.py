"""./check <ID> [--tier quick|thorough] [--replay file]"""

from __future__ import annotations

import argparse
import importlib
import json
import logging
import os
import sys
import traceback
import warnings


def main() -> int:
    ap = argparse.ArgumentParser()
    ap.add_argument("prop")
    ap.add_argument("--tier", default=os.environ.get("VERIF_TIER", "quick"), choices=["quick", "thorough"])
    ap.add_argument("--replay", default=None)
    args = ap.parse_args()
    try:
        seed = int(os.environ.get("VERIF_SEED", "1") or "1")
    except ValueError:
        seed = 1
    logging.disable(logging.CRITICAL)
    warnings.simplefilter("ignore")
    prop = args.prop.upper()
    try:
        from verif.core import Ctx, HarnessError, Inconclusive

        mod = importlib.import_module(f"verif.props.{prop.lower()}")
        if args.replay:
            case = json.loads(open(args.replay).read())
            return int(mod.replay(case))
        ctx = Ctx(prop, args.tier, seed, getattr(mod, "LEVEL", "exploration"))
        mod.run(ctx)
        return ctx.finish()
    except SystemExit:
        raise
    except BaseException as exc:  # noqa: BLE001
        name = type(exc).__name__
        print(f"HARNESS-ERROR ({name}) in {prop}: {exc}", file=sys.stderr)
        traceback.print_exc()
        return 2


if __name__ == "__main__":
    rc = main()
    sys.stdout.flush()
    sys.stderr.flush()
    os._exit(rc)  # background daemon threads of pynenc must not delay/alter the exit
