"""./check <ID> [--tier quick|thorough] [--replay file]"""

from __future__ import annotations

import argparse
import importlib
import json
import logging
import os
import shutil
import sys
import tempfile
import traceback
import warnings


def _scratch_root() -> str:
    return "/dev/shm" if os.path.isdir("/dev/shm") and os.access("/dev/shm", os.W_OK) else tempfile.gettempdir()


def _sweep_stale() -> None:
    """Scratch directories of runs whose process is gone (killed before its own clean-up)."""
    root = _scratch_root()
    try:
        names = os.listdir(root)
    except OSError:
        return
    for n in names:
        if n.startswith("pynverif_run"):
            pid = n[len("pynverif_run"):].split("_")[0]
            if pid.isdigit() and not os.path.exists(f"/proc/{pid}"):
                shutil.rmtree(os.path.join(root, n), ignore_errors=True)


def main() -> int:
    ap = argparse.ArgumentParser()
    ap.add_argument("prop")
    ap.add_argument("--tier", default=os.environ.get("VERIF_TIER", "quick"), choices=["quick", "thorough"])
    ap.add_argument("--replay", default=None)
    args = ap.parse_args()
    try:
        seed = int(os.environ.get("VERIF_SEED", "1") or "1")
    except ValueError:
        seed = 1
    logging.disable(logging.CRITICAL)
    warnings.simplefilter("ignore")
    prop = args.prop.upper()
    try:
        from verif.core import Ctx, HarnessError, Inconclusive

        mod = importlib.import_module(f"verif.props.{prop.lower()}")
        if args.replay:
            case = json.loads(open(args.replay).read())
            return int(mod.replay(case))
        ctx = Ctx(prop, args.tier, seed, getattr(mod, "LEVEL", "exploration"))
        mod.run(ctx)
        return ctx.finish()
    except SystemExit:
        raise
    except BaseException as exc:  # noqa: BLE001
        name = type(exc).__name__
        print(f"HARNESS-ERROR ({name}) in {prop}: {exc}", file=sys.stderr)
        traceback.print_exc()
        return 2


if __name__ == "__main__":
    _sweep_stale()
    # every scratch database of this run (worker processes included) lives under one directory removed at the end:
    # worker processes and os._exit skip atexit handlers
    _base = tempfile.mkdtemp(prefix=f"pynverif_run{os.getpid()}_", dir=_scratch_root())
    os.environ["VERIF_TMPBASE"] = _base
    try:
        rc = main()
    finally:
        shutil.rmtree(_base, ignore_errors=True)
    sys.stdout.flush()
    sys.stderr.flush()
    os._exit(rc)  # background daemon threads of pynenc must not delay/alter the exit
