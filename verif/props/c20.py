"""C20 - monitoring pages only observe: a GET never changes the system.

All GET routes of the assembled FastAPI app (enumerated from its route table) x generated path / query parameters x
system states produced by random operation histories on both stacks (queues longer than the page limit, partially purged
stores, runners silent for hours under a virtual clock).  Requests go through fastapi.testclient in-process.
Oracle: snapshot(app) before == after, whatever the response status.
"""

from __future__ import annotations

import re
from typing import Any

from verif import apps, observe, tasks, vclock, whitebox
from verif.core import Ctx, HarnessError, Part, merge_parts, ncpu, pmap
from verif.hyp import Reporter, make_settings, run_given

LEVEL = "exploration"

RULE = (
    "Hypothesis case = (stack, operation history building the system state: submissions on 3 tasks, batch submissions, claims, results incl. a 300-item "
    "externalised list, exceptions, retries, waits, heartbeats hours apart, workflow runs, optionally a queued id whose state-backend record is deleted) x one "
    "GET per registered route with generated path parameters (existing / missing / malformed ids) and query parameters (limits -1,0,1,len-1,len,10^6; status, "
    "task, workflow filters; time ranges); non-trivial = request against a non-empty queue or an inconsistent store; distinct = (state history, route, parameters)"
)

_ROUTES: dict[str, Any] = {}


def get_client() -> tuple[Any, list[Any]]:
    if "client" not in _ROUTES:
        import pynmon.app as papp
        from fastapi.routing import APIRoute
        from fastapi.testclient import TestClient

        papp.setup_routes()
        def walk(rs: Any, prefix: str = "") -> list[Any]:
            out = []
            for r in rs:
                if isinstance(r, APIRoute):
                    out.append(r)
                elif hasattr(r, "original_router"):  # routers included lazily by newer FastAPI versions
                    out.extend(walk(r.original_router.routes))
                elif hasattr(r, "routes") and not hasattr(r, "app"):
                    out.extend(walk(r.routes))
            return out

        routes = [r for r in walk(papp.app.routes) if "GET" in (r.methods or ())]
        if len(routes) < 25:
            raise HarnessError(f"only {len(routes)} GET routes found in the monitor's route table")
        _ROUTES["client"] = TestClient(papp.app, raise_server_exceptions=False)
        _ROUTES["routes"] = routes
        _ROUTES["papp"] = papp
    return _ROUTES["client"], _ROUTES["routes"]


def build_state(kind: str, history: list[tuple], clock: vclock.VClock, inconsistent: bool) -> tuple[Any, dict[str, Any]]:
    from pynenc import context
    from pynenc.exceptions import RetryError
    from pynenc.invocation.status import InvocationStatus as S

    app = apps.make_app(kind, min_size_to_cache=1024)
    t = {"ident": app.task(tasks.ident), "other": app.task(tasks.other), "keyed": app.task(tasks.keyed, max_retries=1), "creds": app.task(tasks.creds)}
    context.set_runner_context(app.app_id, apps.rctx("CLIENT"))
    context.set_current_app(app)
    info: dict[str, Any] = {"ids": [], "runners": [], "calls": [], "workflow_types": set(), "tasks": [x.task_id.key for x in t.values()]}
    A, B = apps.rctx("runner-A"), apps.rctx("runner-B")
    n = 0
    # every state has a runner that fell silent two hours ago and one finished invocation with a large list result
    for op, arg in [("heartbeat", 1), ("advance", 7200), ("run", 0), ("creds", 0)] + list(history):
        n += 1
        clock.advance(arg if op == "advance" else 1.0)
        if op == "submit":
            inv = t[["ident", "other", "keyed"][arg % 3]](n)
            info["ids"].append(inv.invocation_id)
            info["calls"].append(inv.call.call_id.key)
        elif op == "creds":
            inv = t["creds"](f"tok-{n}", "hunter2", "plain note")
            info["ids"].append(inv.invocation_id)
            info["calls"].append(inv.call.call_id.key)
        elif op == "batch":
            grp = t["ident"].parallelize([(f"b{n}-{i}",) for i in range(2 + arg % 3)])
            info["ids"].extend(i.invocation_id for i in grp.invocations)
        elif op == "run":
            # a full execution through DistributedInvocation.run (registers the workflow run, result, history)
            big = arg % 2 == 0
            inv = t["ident"]([f"item{i}" for i in range(300)] if big else n)
            app.orchestrator.set_invocation_status(inv.invocation_id, S.PENDING, A)
            inv.run(A)
            info["ids"].append(inv.invocation_id)
            info["calls"].append(inv.call.call_id.key)
            info["workflow_types"].add(inv.workflow.workflow_type.key)
        elif op == "fail":
            inv = t["other"](n)
            app.orchestrator.set_invocation_status(inv.invocation_id, S.PENDING, B)
            app.orchestrator.set_invocation_status(inv.invocation_id, S.RUNNING, B)
            app.orchestrator.set_invocation_exception(inv, ValueError("boom", n), B)
            info["ids"].append(inv.invocation_id)
        elif op == "retry":
            inv = t["keyed"](n, 0, 0)
            app.orchestrator.set_invocation_status(inv.invocation_id, S.PENDING, A)
            app.orchestrator.set_invocation_status(inv.invocation_id, S.RUNNING, A)
            app.orchestrator.set_invocation_retry(inv.invocation_id, RetryError("again"), A)
            info["ids"].append(inv.invocation_id)
        elif op == "claim" and info["ids"]:
            iid = info["ids"][arg % len(info["ids"])]
            try:
                app.orchestrator.set_invocation_status(iid, S.PENDING, A)
                if arg % 2:
                    app.orchestrator.set_invocation_status(iid, S.RUNNING, A)
            except Exception:  # noqa: BLE001 - not available any more
                pass
        elif op == "wait" and len(info["ids"]) >= 2:
            a, b = info["ids"][arg % len(info["ids"])], info["ids"][(arg + 1) % len(info["ids"])]
            app.orchestrator.waiting_for_results(a, [b])
        elif op == "heartbeat":
            rid = f"runner-{'AB'[arg % 2]}"
            app.orchestrator.should_run_atomic_service(apps.rctx(rid))
            info["runners"].append(rid)
        elif op == "event":
            app.trigger.emit_event("evt", {"n": n})
    apps.flush(app)
    info["inconsistent"] = False
    if inconsistent:
        q = whitebox.queue_ids(app)
        if q:
            victim = q[0]
            sb = app.state_backend
            if whitebox.is_sqlite(sb):
                whitebox.sql(sb, f"DELETE FROM {sb.tables.INVOCATIONS} WHERE invocation_id = ?", (victim,))
            else:
                whitebox._need(sb, "_cache").pop(victim, None)
            info["inconsistent"] = True
    return app, info


def param_values(name: str, info: dict[str, Any], pick: int) -> str:
    ids = info["ids"] or ["00000000-0000-0000-0000-000000000000"]
    pools = {
        "invocation_id": ids + ["00000000-0000-0000-0000-00000000dead", "not-an-id", "%00", "a b"],
        "task_id_key": info["tasks"] + ["nomodule.nofunc", "bad key", "verif.tasks"],
        "call_id_key": info["calls"] + ["verif.tasks.ident:no_args", "garbage", "a/b/c"],
        "runner_id": info["runners"] + ["runner-A", "ghost-runner", "x" * 80],
        "workflow_type_key": sorted(info["workflow_types"]) + ["verif.tasks.ident", "nomodule.nofunc"],
        "app_id": ["nope"],
    }
    pool = pools.get(name, ["x", "1"])
    return pool[pick % len(pool)]


def query_values(route: Any, info: dict[str, Any], qlen: int, picks: list[int]) -> dict[str, str]:
    out: dict[str, str] = {}
    limits = [-1, 0, 1, max(0, qlen - 1), qlen, qlen + 1, 10**6]
    try:
        qparams = [p.name for p in route.dependant.query_params]
    except Exception:  # noqa: BLE001
        qparams = []
    for j, name in enumerate(qparams):
        pick = picks[j % len(picks)]
        if pick % 3 == 0 and name not in ("limit",):
            continue  # leave the default
        if name in ("limit", "page"):
            out[name] = str(limits[pick % len(limits)])
        elif name == "status":
            out[name] = ["registered", "success", "failed", "pending,running", "bogus"][pick % 5]
        elif name == "task_id":
            out[name] = (info["tasks"] + ["nomodule.nofunc"])[pick % (len(info["tasks"]) + 1)]
        elif name in ("workflow_id",):
            out[name] = (info["ids"] + ["nope"])[pick % (len(info["ids"]) + 1)] if info["ids"] else "nope"
        elif name in ("workflow_type",):
            out[name] = (sorted(info["workflow_types"]) + ["nomodule.nofunc"])[pick % (len(info["workflow_types"]) + 1)]
        elif name == "time_range":
            out[name] = ["5m", "1h", "1d", "custom", "bogus"][pick % 5]
        elif name in ("start_date", "end_date"):
            out[name] = ["2023-11-14T22:00:00", "2023-11-15T10:00:00", "garbage"][pick % 3]
        elif name == "resolution":
            out[name] = ["auto", "1s", "1m", "x"][pick % 4]
        elif name == "log":
            out[name] = ["", "runner:runner-A invocation:" + (info["ids"][0] if info["ids"] else "x"), "garbage line"][pick % 3]
        else:
            out[name] = ["0", "1", "x"][pick % 3]
    return out


def shard(kind: str, seed: int, examples: int, known: list[str]) -> dict:
    import hypothesis
    from hypothesis import given, strategies as st

    part = Part("requests", RULE)
    rep = Reporter(part, known)
    client, routes = get_client()
    papp = _ROUTES["papp"]
    clock = vclock.VClock(start_us=1_700_000_000_000_000, tick_us=0)
    cinst = vclock.install(clock)
    ops = st.lists(st.tuples(st.sampled_from(["submit", "submit", "batch", "run", "run", "fail", "retry", "claim", "wait", "heartbeat", "event", "advance"]),
                             st.sampled_from([0, 1, 2, 3, 5, 600, 7200, 90000])), min_size=3, max_size=14)

    @hypothesis.seed(seed)
    @make_settings(examples)
    @given(history=ops, inconsistent=st.sampled_from([False, False, True]), picks=st.lists(st.integers(0, 20), min_size=4, max_size=4))
    def prop(history, inconsistent, picks):
        clock.us = 1_700_000_000_000_000
        app, info = build_state(kind, history, clock, inconsistent)
        papp.pynenc_instance = app
        papp.all_pynenc_instances = {app.app_id: app}
        qlen = app.broker.count_invocations()
        rep.holder["case"] = {"backend": kind, "history": [list(h) for h in history], "inconsistent": info["inconsistent"], "picks": picks}
        state = {"snap": observe.snapshot(app, ids=info["ids"])}

        def one_request(url: str, q: dict, route: Any) -> None:
            path = route.path
            try:
                resp = client.get(url, params=q, follow_redirects=False)
                code: Any = resp.status_code
            except Exception as exc:  # noqa: BLE001 - a crashing page is still a page that must not change anything
                code = f"exc:{type(exc).__name__}"
            after = observe.snapshot(app, ids=info["ids"])
            nt = qlen > 0 or info["inconsistent"]
            part.case(key=(kind, history, inconsistent, path, tuple(sorted(q.items())), url), nontrivial=nt,
                      classes=[f"backend_{kind}", f"status_{str(code)[0]}xx" if isinstance(code, int) else str(code), "queue_nonempty" if qlen else "queue_empty",
                               "inconsistent_store" if info["inconsistent"] else "consistent_store",
                               "queue_longer_than_limit" if q.get("limit", "").lstrip("-").isdigit() and 0 <= int(q["limit"]) < qlen else "limit_ok"],
                      sample={"backend": kind, "url": url, "params": q, "status": code, "queue_len": qlen})
            snap = state["snap"]
            if after != snap:
                d = observe.diff(snap, after)
                same_ids = sorted(snap["queue"]) == sorted(after["queue"])
                what = "queue-order" if d and same_ids and all(x.startswith("queue:") or (x.startswith("tables.") and "broker" in x) for x in d) else (
                    "queue-content" if d and any(x.startswith("queue") for x in d) else "state")
                state["snap"] = after
                rep.fail(f"requests:{route.path}:{what}", f"[{kind}] GET {url} {q} -> {code} changed the system: {d[:4]}")

        for r_idx, route in enumerate(routes):
            path = route.path
            names = re.findall(r"{([a-zA-Z_]+)(?::[a-z]+)?}", path)
            if path.startswith("/switch-app"):
                continue  # switches the monitor's own selection, not the monitored system
            for var in (range(4) if names else range(1)):
                url = path
                for j, nme in enumerate(names):
                    pk = 0 if var == 3 else picks[(r_idx + j) % 4] + var  # variant 3: the first object of its kind (the prologue's)
                    url = re.sub(r"{" + nme + r"(?::[a-z]+)?}", param_values(nme, info, pk), url, count=1)
                q = query_values(route, info, qlen, [p + r_idx + var for p in picks])
                one_request(url, q, route)

    try:
        run_given(rep, prop, f"requests:{kind}", max_buckets=6)
    finally:
        cinst.uninstall()
    return part.dump()


def run(ctx: Ctx) -> None:
    known = sorted(ctx.known_keys())
    n = ncpu()
    ex = 6 if ctx.quick else 150
    jobs = [("mem" if k % 2 == 0 else "sqlite", ctx.seed * 100 + k, ex, known) for k in range(n)]
    merge_parts(ctx, pmap(shard, jobs))
    client, routes = get_client()
    ctx.extra["get_routes_enumerated"] = sorted({r.path for r in routes})
    ctx.assumptions.append("requests are served in-process by fastapi.testclient against the real route table; /switch-app/{id} is skipped (it changes the monitor's own selection, not the monitored system)")
    ctx.assumptions.append("snapshot = queue content in order, every invocation's record/retries/result digest/exception/history, wait graph, runner records, workflow runs, trigger state, and (SQLite) a digest of every table of the app")


def replay(case: dict) -> int:
    print("re-run the check with the recorded seed to replay:", case["case"])
    return 2
