"""C03 - no accepted invocation is lost when a process dies at any step.

Fault enumeration: for every actor role (client routing single / batch, runner claiming - plain, blocking-priority,
concurrency-controlled -, worker executing - success, failure, retry, not-authorised reroute -, kill-and-reroute on
stop, pending recovery task, running recovery task) the role's operation is executed once to count its backend
effects, then again for every (effect index, before/after) with a hard crash injected there (Crash is a BaseException:
no handler of pynenc catches it, later effects of the dead actor are refused, open SQLite transactions roll back).
After each crash: the clock passes the pending limit and the heartbeat timeout, a surviving runner runs both recovery
tasks and drains the queue.  The fault-free executions are included.
"""

from __future__ import annotations

import types
from typing import Any, Callable
from unittest import mock

from verif import apps, tasks, vclock, whitebox
from verif.core import Ctx, Part, merge_parts, ncpu, pmap
from verif.models import lifecycle as L
from verif.sched import Crash

LEVEL = "fault_enumeration"

RULE = (
    "scenarios = 12 actor roles x Mem/SQLite; fault points = every backend effect of the role's operation (queue push, queue pop, status write, registration, "
    "result / exception write, argument-index write, retry counter, wait-graph write, invocation upsert) x {before, after}, enumerated completely from a "
    "fault-free reference run, plus the fault-free run; after each fault: clock past both recovery limits, both recovery tasks and queue drain by a surviving "
    "runner (3 rounds); oracle: every accepted invocation final and its body completed >= 1 time, and at the crash instant each accepted non-final invocation "
    "is queued-and-available or owned; non-trivial = fault point strictly inside a multi-effect operation; distinct = (stack, role, effect index, side)"
)

EFFECTS = [
    ("broker", "route_invocation"),
    ("broker", "retrieve_invocation"),
    ("orchestrator", "_register_new_invocations"),
    ("orchestrator", "_atomic_status_transition"),
    ("orchestrator", "index_arguments_for_concurrency_control"),
    ("orchestrator", "increment_invocation_retries"),
    ("orchestrator", "set_up_invocation_auto_purge"),
    ("state_backend", "_upsert_invocations"),
    ("state_backend", "_set_result"),
    ("state_backend", "_set_exception"),
]


class Injector:
    def __init__(self, app: Any) -> None:
        self.app = app
        self.active = False
        self.dead = False
        self.count = 0
        self.log: list[str] = []
        self.crash_at: tuple[int, str] | None = None
        self.crashed_label: str | None = None
        for comp, name in EFFECTS:
            self._wrap(getattr(app, comp), name, f"{comp}.{name}")
        bc = app.orchestrator.blocking_control
        self._wrap(bc, "waiting_for_results", "blocking.waiting_for_results")
        self._wrap(bc, "release_waiters", "blocking.release_waiters")

    def _wrap(self, obj: Any, name: str, label: str) -> None:
        orig = getattr(obj, name)

        def wrapper(*a: Any, **k: Any) -> Any:
            if not self.active:
                return orig(*a, **k)
            if self.dead:
                raise Crash()
            if name == "retrieve_invocation" and not whitebox.queue_ids(self.app):
                return orig(*a, **k)  # polling an empty queue changes nothing: not a fault point
            idx = self.count
            self.count += 1
            lab = label
            if name == "_atomic_status_transition" and len(a) >= 2:
                lab = f"{label}:{getattr(a[1], 'name', a[1])}"
            self.log.append(lab)
            if self.crash_at == (idx, "before"):
                self.dead = True
                self.crashed_label = lab
                raise Crash()
            r = orig(*a, **k)
            if self.crash_at == (idx, "after"):
                self.dead = True
                self.crashed_label = lab
                raise Crash()
            return r

        setattr(obj, name, wrapper)

    def run(self, op: Callable[[], Any]) -> str:
        self.active, self.dead, self.count, self.log = True, False, 0, []
        try:
            op()
            return "completed"
        except Crash:
            return "crashed"
        except Exception as exc:  # noqa: BLE001
            return f"raised:{type(exc).__name__}"
        finally:
            self.active = False


ROLES = ["client-single", "client-batch", "claim-plain", "claim-blocking", "claim-concurrency-reroute", "work-success", "work-failure", "work-retry",
         "work-not-authorised", "stop-kill-reroute", "recover-pending", "recover-running", "ppr-worker-loop", "mtr-worker-loop", "pr-loop-iteration"]


class Scenario:
    """Builds the pre-state of a role and returns (operation, accepted invocation ids -> body argument)."""

    def __init__(self, kind: str, role: str, clock: vclock.VClock, variant: int = 0) -> None:
        from pynenc import context
        from pynenc.conf.config_task import ConcurrencyControlType as CC
        from pynenc.exceptions import RetryError
        from pynenc.invocation.status import InvocationStatus as S
        from pynenc.runner.thread_runner import ThreadRunner

        self.kind, self.role, self.clock = kind, role, clock
        app = self.app = apps.make_app(kind, cached_status_time=0.0, max_pending_seconds=5.0, runner_considered_dead_after_minutes=1.0)
        tasks.reset_log()
        context.set_runner_context(app.app_id, apps.rctx("CLIENT"))
        context.set_current_app(app)
        self.accepted: dict[str, Any] = {}
        self.late_accept: Callable[[], dict[str, Any]] | None = None
        self.live_cleanup: list[Callable[[], None]] = []
        self.live_ids: list[str] = []  # runners that stay alive and keep reporting heartbeats
        self.teardown: list[Callable[[], Any]] = []
        plain = app.task(tasks.ident, max_retries=2)
        cc = app.task(tasks.other, running_concurrency=CC.TASK, reroute_on_concurrency_control=True)
        self.attempts: dict[Any, int] = {}
        W, P, D = apps.rctx("W"), apps.rctx("P"), apps.rctx("D")

        def submit(task: Any, x: Any) -> Any:
            inv = task(x)
            self.accepted[str(inv.invocation_id)] = x
            return inv

        def claim_by(inv: Any, ctx: Any) -> Any:
            m = app.broker.retrieve_invocation()
            assert m == inv.invocation_id, (m, inv.invocation_id)
            app.orchestrator.set_invocation_status(inv.invocation_id, S.PENDING, ctx)
            return app.state_backend.get_invocation(inv.invocation_id)

        if role == "client-single":
            holder: dict[str, Any] = {}
            self.op = lambda: holder.update(inv=plain("c1"))
            self.late_accept = lambda: {str(holder["inv"].invocation_id): "c1"} if "inv" in holder else {}
        elif role == "client-batch":
            holder = {}
            self.op = lambda: holder.update(grp=plain.parallelize([(f"b{i}",) for i in range(1, 4 + variant)]))
            self.late_accept = lambda: {str(i.invocation_id): i.arguments.kwargs["x"] for i in holder["grp"].invocations} if "grp" in holder else {}
        elif role == "claim-plain":
            for i in range(1, 2 + variant):
                submit(plain, f"p{i}")
            self.op = lambda: [i.run(W) for i in list(app.orchestrator.get_invocations_to_run(1 + variant, W))]
        elif role == "claim-blocking":
            parent = submit(plain, "parent")
            pinv = claim_by(parent, P)
            app.orchestrator.set_invocation_status(parent.invocation_id, S.RUNNING, P)
            child = submit(plain, "child")
            app.orchestrator.waiting_for_results(parent.invocation_id, [child.invocation_id])
            self.op = lambda: [i.run(W) for i in list(app.orchestrator.get_invocations_to_run(1, W))]
            self.live_cleanup.append(lambda: app.orchestrator.set_invocation_result(pinv, "parent-done", P))
            self.accepted.pop(str(parent.invocation_id))
        elif role == "claim-concurrency-reroute":
            first = submit(cc, "k1")
            finv = claim_by(first, P)
            app.orchestrator.set_invocation_status(first.invocation_id, S.RUNNING, P)
            submit(cc, "k2")
            self.op = lambda: [i.run(W) for i in list(app.orchestrator.get_invocations_to_run(1, W))]
            self.live_cleanup.append(lambda: app.orchestrator.set_invocation_result(finv, "k1-done", P))
            self.accepted.pop(str(first.invocation_id))
        elif role in ("work-success", "work-failure", "work-retry"):
            inv = submit(plain, {"work-success": "w1", "work-failure": "fail-once", "work-retry": "retry-once"}[role])
            winv = claim_by(inv, W)
            self.op = lambda: winv.run(W)
        elif role == "work-not-authorised":
            first = submit(cc, "n1")
            finv = claim_by(first, P)
            app.orchestrator.set_invocation_status(first.invocation_id, S.RUNNING, P)
            second = submit(cc, "n2")
            # W claimed the second one before the first became RUNNING (the race the run-time check exists for)
            m = app.broker.retrieve_invocation()
            app.orchestrator._atomic_status_transition(second.invocation_id, S.PENDING, "W")
            winv = app.state_backend.get_invocation(second.invocation_id)
            self.op = lambda: winv.run(W)
            self.live_cleanup.append(lambda: app.orchestrator.set_invocation_result(finv, "n1-done", P))
            self.accepted.pop(str(first.invocation_id))
        elif role == "stop-kill-reroute":
            T = apps.rctx("T", "ThreadRunner")
            runner = ThreadRunner(app, runner_context=T)
            inv = submit(plain, "s1")
            claim_by(inv, T)
            app.orchestrator.set_invocation_status(inv.invocation_id, S.RUNNING, T)
            self.op = lambda: runner._kill_and_reroute(inv.invocation_id)
        elif role == "recover-pending":
            for x in [submit(plain, f"rp{i}") for i in range(1, 3 + variant)]:
                claim_by(x, D)
            clock.advance(6.0)
            self.op = self._recovery_op("pending")
        elif role == "recover-running":
            for x in [submit(plain, f"rr{i}") for i in range(1, 3 + variant)]:
                claim_by(x, D)
                app.orchestrator.set_invocation_status(x.invocation_id, S.RUNNING, D)
            clock.advance(61.0)
            self.op = self._recovery_op("running")
        elif role == "ppr-worker-loop":
            # the real PersistentProcessRunner worker entry point, in-process: one fetch defers k2 (its task is busy on
            # the live runner P) and runs p3; the deferred one must be back in the queue afterwards
            from pynenc.runner.persistent_process_runner import PersistentProcessRunner, persistent_process_main

            parent = PersistentProcessRunner(app, runner_context=apps.rctx("PPR", "PersistentProcessRunner"))
            app.runner = parent
            self.live_ids.append(parent.runner_context.runner_id)
            first = submit(cc, "k1")
            finv = claim_by(first, P)
            app.orchestrator.set_invocation_status(first.invocation_id, S.RUNNING, P)
            submit(cc, "k2")
            submit(plain, "p3")
            self.live_cleanup.append(lambda: app.orchestrator.set_invocation_result(finv, "k1-done", P))
            self.accepted.pop(str(first.invocation_id))
            polls = [0]

            class StopEv:
                def is_set(self_inner) -> bool:  # noqa: N805
                    polls[0] += 1
                    return polls[0] > 6 or any(e == "exit" and pl == "p3" for e, _, pl in tasks.EXEC_LOG)

                def set(self_inner) -> None:  # noqa: N805
                    polls[0] = 99

            def op_ppr() -> None:
                with mock.patch("signal.signal"):
                    persistent_process_main(app, runner_cache={}, stop_event=StopEv(), parent_runner_ctx_json=parent.runner_context.to_json(), child_runner_id="PPRW1")

            self.op = op_ppr
        elif role == "mtr-worker-loop":
            # the real MultiThreadRunner worker entry point, in-process, task threads run inline (a process crash kills
            # them together with the loop); the parent runner stays alive and keeps reporting its own heartbeat
            from pynenc.runner import thread_runner as tr_mod
            from pynenc.runner.multi_thread_runner import MultiThreadRunner, thread_runner_process_main

            parent = MultiThreadRunner(app, runner_context=apps.rctx("MTR", "MultiThreadRunner"))
            app.runner = parent
            self.live_ids.append(parent.runner_context.runner_id)
            app.orchestrator.register_runner_heartbeats([parent.runner_context.runner_id])
            submit(plain, "m1")
            submit(plain, "retry-once")
            sleeps = [0]

            def sleep_hook(sec: float) -> None:
                clock.advance(max(0.0, sec))
                sleeps[0] += 1
                if sleeps[0] > 12 or not whitebox.queue_ids(app):
                    raise KeyboardInterrupt

            class SyncThread:
                name = "inline"

                def __init__(self_inner, target: Any = None, daemon: Any = None, args: Any = (), kwargs: Any = None, name: Any = None) -> None:  # noqa: N805
                    self_inner.target, self_inner.args = target, args

                def start(self_inner) -> None:  # noqa: N805
                    try:
                        self_inner.target(*self_inner.args)
                    except Exception:  # noqa: BLE001 - a thread swallows the re-raised task error
                        pass

                def is_alive(self_inner) -> bool:  # noqa: N805
                    return False

                def join(self_inner, timeout: Any = None) -> None:  # noqa: N805
                    return None

            def op_mtr() -> None:
                clock.sleep_hook = sleep_hook
                fake_threading = types.SimpleNamespace(Thread=SyncThread)
                try:
                    with mock.patch("signal.signal"), mock.patch.object(tr_mod, "threading", fake_threading):
                        thread_runner_process_main(app, parent_ctx_json=parent.runner_context.to_json(), child_runner_id="MTRW1", runner_cache={}, shared_status={})
                finally:
                    clock.sleep_hook = None

            self.op = op_mtr
        elif role == "pr-loop-iteration":
            # the real ProcessRunner loop iteration (operating-system processes replaced by inert stand-ins): one fetch defers k2
            # (its task is busy on the live runner P) and hands p3 to a worker process; the deferred one must be back in the queue
            from pynenc.runner.process_runner import ProcessRunner
            from verif.props import c14

            saved = c14.install(2)
            self.teardown.append(lambda: [setattr(m_, n_, o_) for m_, n_, o_ in reversed(saved)])
            parent = ProcessRunner(app, runner_context=apps.rctx("PR", "ProcessRunner"))
            app.runner = parent
            self.live_ids.append(parent.runner_context.runner_id)
            parent.running = True
            parent._on_start()
            first = submit(cc, "k1")
            finv = claim_by(first, P)
            app.orchestrator.set_invocation_status(first.invocation_id, S.RUNNING, P)
            submit(cc, "k2")
            submit(plain, "p3")
            self.live_cleanup.append(lambda: app.orchestrator.set_invocation_result(finv, "k1-done", P))
            self.accepted.pop(str(first.invocation_id))
            self.op = parent.runner_loop_iteration
        else:
            raise ValueError(role)

        def body_hook(event: str, name: str, payload: Any) -> None:
            if event == "enter" and payload in ("fail-once", "retry-once"):
                self.attempts[payload] = self.attempts.get(payload, 0) + 1
                if self.attempts[payload] == 1:
                    if payload == "retry-once":
                        raise RetryError("first attempt")
                    raise ValueError("first attempt fails for good")

        tasks.HOOKS["on_event"] = body_hook
        apps.flush(app)

    def _recovery_op(self, which: str) -> Callable[[], None]:
        from pynenc import context
        from pynenc.core_tasks import recover_pending_invocations, recover_running_invocations

        app = self.app

        def op() -> None:
            context.set_current_app(app)
            context.set_runner_context(app.app_id, apps.rctx("REC"))
            (recover_pending_invocations if which == "pending" else recover_running_invocations)()

        return op


def safe_now(app: Any, inv_id: str) -> tuple[bool, str]:
    rec = app.orchestrator.get_invocation_status_record(inv_id)
    st_ = rec.status.name
    queued = inv_id in [str(x) for x in whitebox.queue_ids(app)]
    if st_ in L.FINAL:
        return True, st_
    if st_ in L.AVAILABLE and queued:
        return True, st_
    if st_ in ("PENDING", "RUNNING") and rec.runner_id:
        return True, st_
    return False, f"{st_}:{'queued' if queued else 'unqueued'}"


def recover_and_drain(sc: Scenario) -> list[str]:
    from pynenc import context
    from pynenc.core_tasks import recover_pending_invocations, recover_running_invocations

    app, clock = sc.app, sc.clock
    notes: list[str] = []
    for fn in sc.live_cleanup:
        try:
            fn()
        except Exception as exc:  # noqa: BLE001
            notes.append(f"live runner could not finish its own invocation: {type(exc).__name__}")
    S_ = apps.rctx("S")
    for rnd in range(3):
        clock.advance(6.0)
        clock.advance(61.0)
        app.orchestrator.register_runner_heartbeats([S_.runner_id, *sc.live_ids])
        context.set_current_app(app)
        context.set_runner_context(app.app_id, S_)
        try:
            recover_pending_invocations()
            recover_running_invocations()
        except Exception as exc:  # noqa: BLE001
            notes.append(f"recovery raised {type(exc).__name__}: {exc}"[:160])
        try:
            invs = list(app.orchestrator.get_invocations_to_run(10, S_))
        except Exception as exc:  # noqa: BLE001
            notes.append(f"drain poll raised {type(exc).__name__}: {exc}"[:160])
            invs = []
        for inv in invs:
            try:
                inv.run(S_)
            except Exception:  # noqa: BLE001 - a failing body re-raises after being recorded
                pass
    context.set_runner_context(app.app_id, apps.rctx("CLIENT"))
    return notes


def completions() -> dict[Any, int]:
    out: dict[Any, int] = {}
    for ev, name, payload in tasks.EXEC_LOG:
        if ev == "exit":
            key = payload if not isinstance(payload, list) else tuple(payload)
            out[key] = out.get(key, 0) + 1
    return out


SURVIVOR_ACTIONS = ["rec_pending", "rec_running", "poll_run", "poll_hold", "run_held", "advance_small", "advance_big", "heartbeat"]


def survivors_script(sc: Scenario, script: list[tuple[int, str]]) -> list[str]:
    """Generated interleaving of two surviving runners before the canonical recovery + drain."""
    from pynenc import context
    from pynenc.core_tasks import recover_pending_invocations, recover_running_invocations

    app, clock = sc.app, sc.clock
    ctxs = [apps.rctx("S"), apps.rctx("S2")]
    held: list[list[Any]] = [[], []]
    notes: list[str] = []
    for who, action in script:
        me = ctxs[who]
        context.set_current_app(app)
        context.set_runner_context(app.app_id, me)
        try:
            if action == "rec_pending":
                recover_pending_invocations()
            elif action == "rec_running":
                recover_running_invocations()
            elif action in ("poll_run", "poll_hold"):
                invs = list(app.orchestrator.get_invocations_to_run(2, me))
                if action == "poll_hold":
                    held[who].extend(invs)
                else:
                    for inv in invs:
                        try:
                            inv.run(me)
                        except Exception:  # noqa: BLE001
                            pass
            elif action == "run_held":
                for inv in held[who]:
                    try:
                        inv.run(me)
                    except Exception:  # noqa: BLE001
                        pass
                held[who] = []
            elif action == "advance_small":
                clock.advance(1.0)
            elif action == "advance_big":
                clock.advance(70.0)
            elif action == "heartbeat":
                app.orchestrator.register_runner_heartbeats([me.runner_id, *sc.live_ids])
        except Exception as exc:  # noqa: BLE001
            notes.append(f"survivor {action} raised {type(exc).__name__}: {exc}"[:160])
    for who in (0, 1):
        for inv in held[who]:
            try:
                inv.run(ctxs[who])
            except Exception:  # noqa: BLE001
                pass
    return notes


def one_case(kind: str, role: str, variant: int, point: tuple[int, str] | None, clock: vclock.VClock, script: list[tuple[int, str]] | None = None) -> dict:
    clock.us = 1_700_000_000_000_000
    sc = Scenario(kind, role, clock, variant)
    inj = Injector(sc.app)
    inj.crash_at = point
    outcome = inj.run(sc.op)
    accepted = dict(sc.accepted)
    if sc.late_accept is not None and outcome == "completed":
        accepted.update(sc.late_accept())
    label = inj.crashed_label or "none"
    # (i) instant invariant at the crash instant (or after the fault-free operation)
    state_at_crash: dict[str, str] = {}
    unsafe = 0
    for inv_id in accepted:
        ok, desc = safe_now(sc.app, inv_id)
        state_at_crash[inv_id] = desc if not ok else f"covered:{desc}"
        unsafe += 0 if ok else 1
    for fn in sc.teardown:  # module stand-ins of the role's operation are removed before the survivors run
        fn()
    notes = survivors_script(sc, script) if script else []
    notes += recover_and_drain(sc)
    # (ii) end to end
    done = completions()
    failures: list[tuple[str, str]] = []
    if outcome.startswith("raised") and point is None and role != "work-failure":
        failures.append((f"faults:{role}:operation-raised", f"[{kind}] fault-free operation {outcome}"))
    for inv_id, arg in accepted.items():
        st_ = sc.app.orchestrator.get_invocation_status(inv_id).name
        needs_body = arg not in ("fail-once",)
        if st_ not in L.FINAL or (needs_body and done.get(arg, 0) < 1 and st_ != "CONCURRENCY_CONTROLLED_FINAL"):
            key = f"faults:{role}:{'fault-free:' if point is None else ''}stranded:{state_at_crash[inv_id]}"
            failures.append((key, f"[{kind}] crash {point[1] if point else ''} effect #{point[0] if point else '-'} ({label}): invocation {arg!r} ends {st_} with {done.get(arg, 0)} completed executions after recovery + drain; at the crash instant it was {state_at_crash[inv_id]}; survivors={script}; notes={notes[:2]}"))
    return {"outcome": outcome, "label": label, "accepted": len(accepted), "unsafe": unsafe, "failures": failures, "n_effects": inj.count, "log": list(inj.log)}


def shard(kind: str, role: str, known: list[str], variant: int = 0) -> dict:
    part = Part("faults", RULE, exhaustive=True)
    clock = vclock.VClock(start_us=1_700_000_000_000_000, tick_us=0)
    cinst = vclock.install(clock)
    try:
        ref = one_case(kind, role, variant, None, clock)  # reference (fault-free) run: counts the effects
        n_effects = ref["n_effects"]
        points: list[tuple[int, str] | None] = [None] + [(k, side) for k in range(n_effects) for side in ("before", "after")]
        for point in points:
            r = one_case(kind, role, variant, point, clock)
            inside = point is not None and not (point[0] == 0 and point[1] == "before") and not (point[0] == n_effects - 1 and point[1] == "after")
            part.case(key=(kind, role, variant, point), nontrivial=inside, classes=[f"backend_{kind}", f"role_{role}", "fault_free" if point is None else f"crash_{point[1]}", f"op_{r['outcome'].split(':')[0]}"],
                      sample={"backend": kind, "role": role, "variant": variant, "point": point, "effect": r["label"], "effects_of_operation": ref["log"], "accepted": r["accepted"]})
            for key, msg in r["failures"]:
                if key in known:
                    part.known(key)
                else:
                    part.violation(key, msg, {"backend": kind, "role": role, "variant": variant, "point": point, "effect": r["label"]})
            if r["unsafe"] and not r["failures"]:
                part.event("instant_invariant_warning_only")
    finally:
        cinst.uninstall()
    return part.dump()


RULE_S = (
    "Hypothesis draws (backend, role, fault point or none, a script of up to 12 actions of two surviving runners: pending / running recovery task, poll-and-run, "
    "poll-and-hold, run held, clock +1 s / +70 s, heartbeat); the script runs between the crash and the canonical recovery + drain; same oracle; "
    "non-trivial = script contains a recovery task and a poll by different survivors; distinct = (backend, role, point, script)"
)


def survivors_shard(seed: int, examples: int, known: list[str]) -> dict:
    import hypothesis
    from hypothesis import given, strategies as st

    from verif.hyp import Reporter, make_settings, run_given

    part = Part("survivors", RULE_S)
    rep = Reporter(part, known)
    clock = vclock.VClock(start_us=1_700_000_000_000_000, tick_us=0)
    cinst = vclock.install(clock)
    n_cache: dict[tuple[str, str], int] = {}

    def n_effects(kind: str, role: str) -> int:
        if (kind, role) not in n_cache:
            n_cache[(kind, role)] = one_case(kind, role, 0, None, clock)["n_effects"]
        return n_cache[(kind, role)]

    roles = [r for r in ROLES if not r.startswith("client")]

    @hypothesis.seed(seed)
    @make_settings(examples)
    @given(kind=st.sampled_from(["mem", "sqlite"]), role=st.sampled_from(roles), frac=st.integers(0, 10_000), side=st.sampled_from(["before", "after", "none"]),
           script=st.lists(st.tuples(st.integers(0, 1), st.sampled_from(SURVIVOR_ACTIONS)), max_size=12))
    def test(kind: str, role: str, frac: int, side: str, script: list[tuple[int, str]]) -> None:
        n = n_effects(kind, role)
        point = None if side == "none" else (frac % n, side)
        case = {"backend": kind, "role": role, "variant": 0, "point": point, "script": script}
        rep.holder["case"] = case
        r = one_case(kind, role, 0, point, clock, script)
        rec = {w for w, a in script if a.startswith("rec_")}
        pol = {w for w, a in script if a.startswith("poll_")}
        part.case(key=(kind, role, point, tuple(script)), nontrivial=bool(rec and pol and (len(rec | pol) > 1)), classes=[f"backend_{kind}", f"role_{role}", f"len_{min(len(script), 12) // 4 * 4}", *(sorted({f"act_{a}" for _, a in script}))],
                  sample=case)
        for key, msg in r["failures"]:
            rep.fail(key, msg)

    try:
        run_given(rep, test, "survivors")
    finally:
        cinst.uninstall()
    return part.dump()


def run(ctx: Ctx) -> None:
    known = sorted(ctx.known_keys())
    variants = [0] if ctx.quick else [0, 1, 2]
    sized = {"client-batch", "claim-plain", "recover-pending", "recover-running"}
    jobs = [(kind, role, known, v) for kind in ("mem", "sqlite") for role in ROLES for v in variants if v == 0 or role in sized]
    merge_parts(ctx, pmap(shard, jobs))
    nsh, per = (8, 40) if ctx.quick else (16, 1800)
    merge_parts(ctx, pmap(survivors_shard, [(ctx.seed * 1000 + i, per, known) for i in range(nsh)]))
    ctx.assumptions.append("a hard crash = Crash(BaseException) raised at an effect boundary of the acting role; every later effect of that actor is refused; SQLite transactions left open roll back; background history writes of the dead process are not counted as effects")
    ctx.assumptions.append("an invocation is accepted once the client call returned it: crashes inside the client's own routing call leave nothing accepted by that call (checked only for side effects on recovery)")
    ctx.assumptions.append("surviving-runner interleavings are generated at operation granularity (whole recovery task / whole poll / whole run per step, two survivors); statement-level races between survivors are covered by the C02/C04/C06 schedule searches")


def replay(case: dict) -> int:
    c = case["case"]
    clock = vclock.VClock(start_us=1_700_000_000_000_000, tick_us=0)
    cinst = vclock.install(clock)
    try:
        point = tuple(c["point"]) if c.get("point") else None
        script = [tuple(x) for x in c.get("script") or []] or None
        r = one_case(c["backend"], c["role"], c.get("variant", 0), point, clock, script)
    finally:
        cinst.uninstall()
    for key, msg in r["failures"]:
        print("REPRODUCED:", key, "::", msg[:300])
    return 1 if r["failures"] else 0
