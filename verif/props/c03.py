"""C03 - no accepted invocation is lost when a process dies at any step.

Fault enumeration: for every actor role (client routing single / batch, runner claiming - plain, blocking-priority,
concurrency-controlled -, worker executing - success, failure, retry, not-authorised reroute -, kill-and-reroute on
stop, pending recovery task, running recovery task) the role's operation is executed once to count its backend
effects, then again for every (effect index, before/after) with a hard crash injected there (Crash is a BaseException:
no handler of pynenc catches it, later effects of the dead actor are refused, open SQLite transactions roll back).
After each crash: the clock passes the pending limit and the heartbeat timeout, a surviving runner runs both recovery
tasks and drains the queue.  The fault-free executions are included.
"""

from __future__ import annotations

from typing import Any, Callable

from verif import apps, tasks, vclock, whitebox
from verif.core import Ctx, Part, merge_parts, ncpu, pmap
from verif.models import lifecycle as L
from verif.sched import Crash

LEVEL = "fault_enumeration"

RULE = (
    "scenarios = 12 actor roles x Mem/SQLite; fault points = every backend effect of the role's operation (queue push, queue pop, status write, registration, "
    "result / exception write, argument-index write, retry counter, wait-graph write, invocation upsert) x {before, after}, enumerated completely from a "
    "fault-free reference run, plus the fault-free run; after each fault: clock past both recovery limits, both recovery tasks and queue drain by a surviving "
    "runner (3 rounds); oracle: every accepted invocation final and its body completed >= 1 time, and at the crash instant each accepted non-final invocation "
    "is queued-and-available or owned; non-trivial = fault point strictly inside a multi-effect operation; distinct = (stack, role, effect index, side)"
)

EFFECTS = [
    ("broker", "route_invocation"),
    ("broker", "retrieve_invocation"),
    ("orchestrator", "_register_new_invocations"),
    ("orchestrator", "_atomic_status_transition"),
    ("orchestrator", "index_arguments_for_concurrency_control"),
    ("orchestrator", "increment_invocation_retries"),
    ("orchestrator", "set_up_invocation_auto_purge"),
    ("state_backend", "_upsert_invocations"),
    ("state_backend", "_set_result"),
    ("state_backend", "_set_exception"),
]


class Injector:
    def __init__(self, app: Any) -> None:
        self.app = app
        self.active = False
        self.dead = False
        self.count = 0
        self.log: list[str] = []
        self.crash_at: tuple[int, str] | None = None
        self.crashed_label: str | None = None
        for comp, name in EFFECTS:
            self._wrap(getattr(app, comp), name, f"{comp}.{name}")
        bc = app.orchestrator.blocking_control
        self._wrap(bc, "waiting_for_results", "blocking.waiting_for_results")
        self._wrap(bc, "release_waiters", "blocking.release_waiters")

    def _wrap(self, obj: Any, name: str, label: str) -> None:
        orig = getattr(obj, name)

        def wrapper(*a: Any, **k: Any) -> Any:
            if not self.active:
                return orig(*a, **k)
            if self.dead:
                raise Crash()
            idx = self.count
            self.count += 1
            lab = label
            if name == "_atomic_status_transition" and len(a) >= 2:
                lab = f"{label}:{getattr(a[1], 'name', a[1])}"
            self.log.append(lab)
            if self.crash_at == (idx, "before"):
                self.dead = True
                self.crashed_label = lab
                raise Crash()
            r = orig(*a, **k)
            if self.crash_at == (idx, "after"):
                self.dead = True
                self.crashed_label = lab
                raise Crash()
            return r

        setattr(obj, name, wrapper)

    def run(self, op: Callable[[], Any]) -> str:
        self.active, self.dead, self.count, self.log = True, False, 0, []
        try:
            op()
            return "completed"
        except Crash:
            return "crashed"
        except Exception as exc:  # noqa: BLE001
            return f"raised:{type(exc).__name__}"
        finally:
            self.active = False


ROLES = ["client-single", "client-batch", "claim-plain", "claim-blocking", "claim-concurrency-reroute", "work-success", "work-failure", "work-retry",
         "work-not-authorised", "stop-kill-reroute", "recover-pending", "recover-running"]


class Scenario:
    """Builds the pre-state of a role and returns (operation, accepted invocation ids -> body argument)."""

    def __init__(self, kind: str, role: str, clock: vclock.VClock) -> None:
        from pynenc import context
        from pynenc.conf.config_task import ConcurrencyControlType as CC
        from pynenc.exceptions import RetryError
        from pynenc.invocation.status import InvocationStatus as S
        from pynenc.runner.thread_runner import ThreadRunner

        self.kind, self.role, self.clock = kind, role, clock
        app = self.app = apps.make_app(kind, cached_status_time=0.0, max_pending_seconds=5.0, runner_considered_dead_after_minutes=1.0)
        tasks.reset_log()
        context.set_runner_context(app.app_id, apps.rctx("CLIENT"))
        context.set_current_app(app)
        self.accepted: dict[str, Any] = {}
        self.late_accept: Callable[[], dict[str, Any]] | None = None
        self.live_cleanup: list[Callable[[], None]] = []
        plain = app.task(tasks.ident, max_retries=2)
        cc = app.task(tasks.other, running_concurrency=CC.TASK, reroute_on_concurrency_control=True)
        self.attempts: dict[Any, int] = {}
        W, P, D = apps.rctx("W"), apps.rctx("P"), apps.rctx("D")

        def submit(task: Any, x: Any) -> Any:
            inv = task(x)
            self.accepted[str(inv.invocation_id)] = x
            return inv

        def claim_by(inv: Any, ctx: Any) -> Any:
            m = app.broker.retrieve_invocation()
            assert m == inv.invocation_id, (m, inv.invocation_id)
            app.orchestrator.set_invocation_status(inv.invocation_id, S.PENDING, ctx)
            return app.state_backend.get_invocation(inv.invocation_id)

        if role == "client-single":
            holder: dict[str, Any] = {}
            self.op = lambda: holder.update(inv=plain("c1"))
            self.late_accept = lambda: {str(holder["inv"].invocation_id): "c1"} if "inv" in holder else {}
        elif role == "client-batch":
            holder = {}
            self.op = lambda: holder.update(grp=plain.parallelize([("b1",), ("b2",), ("b3",)]))
            self.late_accept = lambda: {str(i.invocation_id): i.arguments.kwargs["x"] for i in holder["grp"].invocations} if "grp" in holder else {}
        elif role == "claim-plain":
            submit(plain, "p1")
            self.op = lambda: [i.run(W) for i in list(app.orchestrator.get_invocations_to_run(1, W))]
        elif role == "claim-blocking":
            parent = submit(plain, "parent")
            pinv = claim_by(parent, P)
            app.orchestrator.set_invocation_status(parent.invocation_id, S.RUNNING, P)
            child = submit(plain, "child")
            app.orchestrator.waiting_for_results(parent.invocation_id, [child.invocation_id])
            self.op = lambda: [i.run(W) for i in list(app.orchestrator.get_invocations_to_run(1, W))]
            self.live_cleanup.append(lambda: app.orchestrator.set_invocation_result(pinv, "parent-done", P))
            self.accepted.pop(str(parent.invocation_id))
        elif role == "claim-concurrency-reroute":
            first = submit(cc, "k1")
            finv = claim_by(first, P)
            app.orchestrator.set_invocation_status(first.invocation_id, S.RUNNING, P)
            submit(cc, "k2")
            self.op = lambda: [i.run(W) for i in list(app.orchestrator.get_invocations_to_run(1, W))]
            self.live_cleanup.append(lambda: app.orchestrator.set_invocation_result(finv, "k1-done", P))
            self.accepted.pop(str(first.invocation_id))
        elif role in ("work-success", "work-failure", "work-retry"):
            inv = submit(plain, {"work-success": "w1", "work-failure": "fail-once", "work-retry": "retry-once"}[role])
            winv = claim_by(inv, W)
            self.op = lambda: winv.run(W)
        elif role == "work-not-authorised":
            first = submit(cc, "n1")
            finv = claim_by(first, P)
            app.orchestrator.set_invocation_status(first.invocation_id, S.RUNNING, P)
            second = submit(cc, "n2")
            # W claimed the second one before the first became RUNNING (the race the run-time check exists for)
            m = app.broker.retrieve_invocation()
            app.orchestrator._atomic_status_transition(second.invocation_id, S.PENDING, "W")
            winv = app.state_backend.get_invocation(second.invocation_id)
            self.op = lambda: winv.run(W)
            self.live_cleanup.append(lambda: app.orchestrator.set_invocation_result(finv, "n1-done", P))
            self.accepted.pop(str(first.invocation_id))
        elif role == "stop-kill-reroute":
            T = apps.rctx("T", "ThreadRunner")
            runner = ThreadRunner(app, runner_context=T)
            inv = submit(plain, "s1")
            claim_by(inv, T)
            app.orchestrator.set_invocation_status(inv.invocation_id, S.RUNNING, T)
            self.op = lambda: runner._kill_and_reroute(inv.invocation_id)
        elif role == "recover-pending":
            a, b = submit(plain, "rp1"), submit(plain, "rp2")
            claim_by(a, D)
            claim_by(b, D)
            clock.advance(6.0)
            self.op = self._recovery_op("pending")
        elif role == "recover-running":
            a, b = submit(plain, "rr1"), submit(plain, "rr2")
            for x in (a, b):
                claim_by(x, D)
                app.orchestrator.set_invocation_status(x.invocation_id, S.RUNNING, D)
            clock.advance(61.0)
            self.op = self._recovery_op("running")
        else:
            raise ValueError(role)

        def body_hook(event: str, name: str, payload: Any) -> None:
            if event == "enter" and payload in ("fail-once", "retry-once"):
                self.attempts[payload] = self.attempts.get(payload, 0) + 1
                if self.attempts[payload] == 1:
                    if payload == "retry-once":
                        raise RetryError("first attempt")
                    raise ValueError("first attempt fails for good")

        tasks.HOOKS["on_event"] = body_hook
        apps.flush(app)

    def _recovery_op(self, which: str) -> Callable[[], None]:
        from pynenc import context
        from pynenc.core_tasks import recover_pending_invocations, recover_running_invocations

        app = self.app

        def op() -> None:
            context.set_current_app(app)
            context.set_runner_context(app.app_id, apps.rctx("REC"))
            (recover_pending_invocations if which == "pending" else recover_running_invocations)()

        return op


def safe_now(app: Any, inv_id: str) -> tuple[bool, str]:
    rec = app.orchestrator.get_invocation_status_record(inv_id)
    st_ = rec.status.name
    queued = inv_id in [str(x) for x in whitebox.queue_ids(app)]
    if st_ in L.FINAL:
        return True, st_
    if st_ in L.AVAILABLE and queued:
        return True, st_
    if st_ in ("PENDING", "RUNNING") and rec.runner_id:
        return True, st_
    return False, f"{st_}:{'queued' if queued else 'unqueued'}"


def recover_and_drain(sc: Scenario) -> list[str]:
    from pynenc import context
    from pynenc.core_tasks import recover_pending_invocations, recover_running_invocations

    app, clock = sc.app, sc.clock
    notes: list[str] = []
    for fn in sc.live_cleanup:
        try:
            fn()
        except Exception as exc:  # noqa: BLE001
            notes.append(f"live runner could not finish its own invocation: {type(exc).__name__}")
    S_ = apps.rctx("S")
    for rnd in range(3):
        clock.advance(6.0)
        clock.advance(61.0)
        app.orchestrator.register_runner_heartbeats([S_.runner_id])
        context.set_current_app(app)
        context.set_runner_context(app.app_id, S_)
        try:
            recover_pending_invocations()
            recover_running_invocations()
        except Exception as exc:  # noqa: BLE001
            notes.append(f"recovery raised {type(exc).__name__}: {exc}"[:160])
        try:
            invs = list(app.orchestrator.get_invocations_to_run(10, S_))
        except Exception as exc:  # noqa: BLE001
            notes.append(f"drain poll raised {type(exc).__name__}: {exc}"[:160])
            invs = []
        for inv in invs:
            try:
                inv.run(S_)
            except Exception:  # noqa: BLE001 - a failing body re-raises after being recorded
                pass
    context.set_runner_context(app.app_id, apps.rctx("CLIENT"))
    return notes


def completions() -> dict[Any, int]:
    out: dict[Any, int] = {}
    for ev, name, payload in tasks.EXEC_LOG:
        if ev == "exit":
            key = payload if not isinstance(payload, list) else tuple(payload)
            out[key] = out.get(key, 0) + 1
    return out


def shard(kind: str, role: str, known: list[str]) -> dict:
    part = Part("faults", RULE, exhaustive=True)
    clock = vclock.VClock(start_us=1_700_000_000_000_000, tick_us=0)
    cinst = vclock.install(clock)
    try:
        # reference (fault-free) run: counts the effects
        sc = Scenario(kind, role, clock)
        inj = Injector(sc.app)
        outcome = inj.run(sc.op)
        n_effects = inj.count
        ref_log = list(inj.log)
        points: list[tuple[int, str] | None] = [None] + [(k, side) for k in range(n_effects) for side in ("before", "after")]
        for point in points:
            clock.us = 1_700_000_000_000_000
            sc = Scenario(kind, role, clock)
            inj = Injector(sc.app)
            inj.crash_at = point
            outcome = inj.run(sc.op)
            accepted = dict(sc.accepted)
            if sc.late_accept is not None and outcome == "completed":
                accepted.update(sc.late_accept())
            label = inj.crashed_label or "none"
            # (i) instant invariant at the crash instant (or after the fault-free operation)
            unsafe = []
            for inv_id in accepted:
                ok, desc = safe_now(sc.app, inv_id)
                if not ok:
                    unsafe.append((inv_id, desc))
            notes = recover_and_drain(sc)
            # (ii) end to end
            done = completions()
            lost = []
            for inv_id, arg in accepted.items():
                st_ = sc.app.orchestrator.get_invocation_status(inv_id).name
                needs_body = arg not in ("fail-once",)
                if st_ not in L.FINAL or (needs_body and done.get(arg, 0) < 1 and st_ != "CONCURRENCY_CONTROLLED_FINAL"):
                    lost.append((inv_id, arg, st_))
            inside = point is not None and not (point[0] == 0 and point[1] == "before") and not (point[0] == n_effects - 1 and point[1] == "after")
            part.case(key=(kind, role, point), nontrivial=inside, classes=[f"backend_{kind}", f"role_{role}", "fault_free" if point is None else f"crash_{point[1]}", f"op_{outcome.split(':')[0]}"],
                      sample={"backend": kind, "role": role, "point": point, "effect": label, "effects_of_operation": ref_log, "accepted": len(accepted)})
            if outcome.startswith("raised") and point is None:
                key = f"faults:{role}:operation-raised"
                (part.known if key in known else lambda k_: part.violation(k_, f"[{kind}] fault-free operation {outcome}", {"backend": kind, "role": role, "point": point}))(key)
            for inv_id, arg, st_ in lost:
                unsafe_desc = dict(unsafe).get(inv_id, "safe-at-crash")
                key = f"faults:{role}:stranded:{label}:{point[1] if point else 'none'}:{unsafe_desc}"
                msg = f"[{kind}] crash {point[1] if point else ''} effect #{point[0] if point else '-'} ({label}): invocation {arg!r} ends {st_} with {done.get(arg, 0)} completed executions after recovery + drain; at the crash instant it was {unsafe_desc}; notes={notes[:2]}"
                if key in known:
                    part.known(key)
                else:
                    part.violation(key, msg, {"backend": kind, "role": role, "point": point, "effect": label})
            if unsafe and not lost:
                part.event("instant_invariant_warning_only")
    finally:
        cinst.uninstall()
    return part.dump()


def run(ctx: Ctx) -> None:
    known = sorted(ctx.known_keys())
    jobs = [(kind, role, known) for kind in ("mem", "sqlite") for role in ROLES]
    merge_parts(ctx, pmap(shard, jobs))
    ctx.assumptions.append("a hard crash = Crash(BaseException) raised at an effect boundary of the acting role; every later effect of that actor is refused; SQLite transactions left open roll back; background history writes of the dead process are not counted as effects")
    ctx.assumptions.append("an invocation is accepted once the client call returned it: crashes inside the client's own routing call leave nothing accepted by that call (checked only for side effects on recovery)")
    ctx.assumptions.append("surviving-runner interleavings are sequential here (recovery tasks, then drain, 3 rounds); concurrent survivors are covered by the C02/C06 schedule searches")


def replay(case: dict) -> int:
    c = case["case"]
    d = shard(c["backend"], c["role"], [])
    bad = [v for v in d["violations"] if v["replay"].get("point") == c.get("point") or c.get("point") is None]
    for v in bad:
        print("REPRODUCED:", v["what"][:300])
    return 1 if bad else 0
