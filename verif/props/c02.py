"""C02 - an invocation is held by at most one runner at a time under any interleaving.

Scenarios (both stacks): N pollers doing list(get_invocations_to_run(m)) + inv.run() over small
queues with duplicate ids and blocking-priority entries, plus releasing actors (retry, recovery,
kill-and-reroute).  Schedules: bounded-preemption DFS for 2 actors, PCT / random for 3-4.
Oracle: verif.scen (accepted-transition log replayed through the lifecycle model, yields vs
claims, body overlap).  The same executions feed C10 (history) - see c10.py.
"""

from __future__ import annotations

import random
from typing import Any, Callable

from verif import apps, explore, scen, sched, tasks, vclock
from verif.core import Ctx, Part, merge_parts, ncpu, pmap

LEVEL = "exploration"

RULE = (
    "scenarios = backend x queue shape (single id, duplicate ids, blocking-priority entry, retry, pending-recovery, kill-and-reroute) x pollers; "
    "schedules: every schedule with <= p forced switches (DFS) for 2 actors, PCT + seeded random for 3-4 actors; granularity: source line "
    "(Mem orchestrator/broker, base orchestrator, invocation run) or SQL statement (SQLite); non-trivial = schedule with >=1 forced switch "
    "falling inside a claim window (between a poller's first read of an invocation's status and its PENDING write) on a scenario with a "
    "duplicate / blocking / releasing element; distinct = (scenario, choice list)"
)

SCENARIOS: list[dict[str, Any]] = [
    {"name": "single", "queue": ["x"], "pollers": [("A", 1), ("B", 1)]},
    {"name": "dup", "queue": ["x", "x"], "pollers": [("A", 2), ("B", 2)]},
    {"name": "dup3", "queue": ["x", "y", "x"], "pollers": [("A", 2), ("B", 2)]},
    {"name": "blocking", "queue": ["c"], "blocking": True, "pollers": [("A", 1), ("B", 1)]},
    {"name": "retry", "queue": ["x"], "retry": True, "pollers": [("A", 1), ("B", 1)]},
    {"name": "recovery", "queue": [], "recovery": True, "pollers": [("B", 1)]},
    {"name": "kill", "queue": [], "kill": True, "pollers": [("B", 1)]},
    {"name": "three", "queue": ["x", "x", "y"], "pollers": [("A", 2), ("B", 2), ("C", 1)]},
    {"name": "four-retry", "queue": ["x", "y", "x"], "retry": True, "pollers": [("A", 1), ("B", 2), ("C", 1), ("D", 1)]},
    {"name": "batch-client", "queue": [], "batch": 3, "pollers": [("A", 2)]},
    # a request of the old owner A overlapping a complete release + re-claim by B (status returns to the same value under another owner)
    {"name": "aba-running", "queue": [], "aba": "running", "pollers": []},
    {"name": "aba-pending", "queue": [], "aba": "pending", "pollers": []},
    # owner releases while two pollers hold a copy of the id each (three parties on one per-invocation critical section)
    {"name": "release-race", "queue": [], "release_race": True, "pollers": [("B", 1), ("C", 1)], "mem_files": ("pynenc/orchestrator/mem_orchestrator.py",), "extras_first": True, "dfs": (2, 16, 2, 16),
     "mem_funcs": ("_atomic_status_transition", "_get_invocation_lock", "_interanl_atomic_status_transition")},
    # (pure-Python container code the lock lookup may call into - weakref.py - yields as well: a lock table is only as atomic as its container)
    {"name": "dup-critical-section", "queue": ["x", "x"], "pollers": [("A", 2), ("B", 2)], "mem_files": ("pynenc/orchestrator/mem_orchestrator.py",), "dfs": (2, 4, 2, 4),
     "stdlib_files": ("weakref",),
     "mem_funcs": ("_atomic_status_transition", "_get_invocation_lock", "_interanl_atomic_status_transition", "setdefault", "__setitem__", "__getitem__", "get", "pop")},
    # SQLite only: the busy time-out of one poller expires at its k-th locked statement ("database is locked" reaches the code under test)
    {"name": "busy-dup-A0", "queue": ["x", "x"], "pollers": [("A", 2), ("B", 2)], "busy_faults": [("poll-A", 0)]},
    {"name": "busy-dup-B0", "queue": ["x", "x"], "pollers": [("A", 2), ("B", 2)], "busy_faults": [("poll-B", 0)]},
    {"name": "busy-dup-B1", "queue": ["x", "x"], "pollers": [("A", 2), ("B", 2)], "busy_faults": [("poll-B", 1)]},
    {"name": "busy-dup-AB", "queue": ["x", "x"], "pollers": [("A", 2), ("B", 2)], "busy_faults": [("poll-A", 1), ("poll-B", 0)]},
    {"name": "busy-retry-B0", "queue": ["x", "x"], "retry": True, "pollers": [("A", 1), ("B", 1)], "busy_faults": [("poll-B", 0)]},
    {"name": "busy-retry-A0", "queue": ["x", "x"], "retry": True, "pollers": [("A", 1), ("B", 1)], "busy_faults": [("poll-A", 0)]},
    {"name": "release-race-all-lines", "queue": [], "release_race": True, "pollers": [("B", 1), ("C", 1)], "mem_files": ("pynenc/orchestrator/mem_orchestrator.py",), "extras_first": True, "dfs": (0, 0, 2, 16)},
]

MEM_FILES = (
    "pynenc/orchestrator/mem_orchestrator.py",
    "pynenc/broker/mem_broker.py",
    "pynenc/orchestrator/base_orchestrator.py",
    "pynenc/invocation/dist_invocation.py",
    "pynenc/core_tasks.py",
)


HISTORY_FILES = ("pynenc/state_backend/mem_state_backend.py", "pynenc/state_backend/base_state_backend.py")


class Env:
    pass


def setup_env(kind: str, sc: dict, clock: vclock.VClock, shared: dict) -> Env:
    from pynenc import context
    from pynenc.exceptions import RetryError
    from pynenc.invocation.status import InvocationStatus as S
    from pynenc.runner.thread_runner import ThreadRunner

    env = Env()
    if kind == "sqlite":
        app = shared.get("app")
        if app is None:
            app = shared["app"] = apps.make_app("sqlite", cached_status_time=0.0, max_pending_seconds=5.0)
            shared["task"] = app.task(tasks.keyed, max_retries=1)
        else:
            app.purge()
            app.state_backend._runner_context_cache.clear()
            app.state_backend.invocation_threads.clear()
        task = shared["task"]
    else:
        app = apps.make_app("mem", cached_status_time=0.0, max_pending_seconds=5.0)
        task = app.task(tasks.keyed, max_retries=1)
    env.app, env.task = app, task
    tasks.reset_log()
    context.set_runner_context(app.app_id, apps.rctx("CLIENT"))
    mon = scen.Monitor(app, clock)
    env.mon = mon
    ids: dict[str, str] = {}
    for name in sorted(set(sc["queue"]) | ({"x"} if (sc.get("recovery") or sc.get("kill") or sc.get("aba") or sc.get("release_race")) else set())):
        inv = task(name, 0, 0)
        ids[name] = inv.invocation_id
    # duplicates: route the same id again
    seen: set[str] = set()
    for name in sc["queue"]:
        if name in seen:
            app.broker.route_invocation(ids[name])
        seen.add(name)
    env.ids = ids
    env.extra_actors = []
    attempts: dict[str, int] = {}

    def body(k, v, w):
        inv = context.get_dist_invocation_context(app.app_id)
        rc = context.get_runner_context(app.app_id)
        iid = inv.invocation_id if inv is not None else "?"
        rid = rc.runner_id if rc else None
        mon.body("enter", iid, rid)
        s = sched.active()
        try:
            if s is not None:
                s.yield_point("body-1")
                s.yield_point("body-2")
            attempts[iid] = attempts.get(iid, 0) + 1
            if sc.get("retry") and attempts[iid] == 1:
                raise RetryError("first attempt")
        finally:
            mon.body("exit", iid, rid)

    tasks.HOOKS["keyed_body"] = body
    if sc.get("blocking"):
        # a parent p is RUNNING under runner P and waits on child c (queued, REGISTERED)
        p = task("parent", 0, 0)
        app.broker.retrieve_invocation()  # take the parent's own message out: it is being run
        P = apps.rctx("P")
        app.orchestrator.set_invocation_status(p.invocation_id, S.PENDING, P)
        app.orchestrator.set_invocation_status(p.invocation_id, S.RUNNING, P)
        app.orchestrator.waiting_for_results(p.invocation_id, [ids["c"]])
    if sc.get("recovery"):
        D = apps.rctx("D")
        app.broker.retrieve_invocation()
        app.orchestrator.set_invocation_status(ids["x"], S.PENDING, D)
        clock.advance(6.0)
        dinv = app.state_backend.get_invocation(ids["x"])

        def recover():
            from pynenc.core_tasks import recover_pending_invocations

            context.set_current_app(app)
            context.set_runner_context(app.app_id, apps.rctx("REC"))
            recover_pending_invocations()

        def late_owner():
            dinv.run(D)

        env.extra_actors = [("REC", recover), ("D", late_owner)]
    if sc.get("kill"):
        A = apps.rctx("A")
        runner = ThreadRunner(app, runner_context=A)
        app.broker.retrieve_invocation()
        app.orchestrator.set_invocation_status(ids["x"], S.PENDING, A)
        ainv = app.state_backend.get_invocation(ids["x"])

        def owner_runs():
            ainv.run(A)

        def killer():
            runner._kill_and_reroute(ids["x"])

        env.extra_actors = [("A-body", owner_runs), ("A-kill", killer)]
    if sc.get("aba"):
        A, B = apps.rctx("A"), apps.rctx("B")
        runner = ThreadRunner(app, runner_context=A)
        app.broker.retrieve_invocation()
        app.orchestrator.set_invocation_status(ids["x"], S.PENDING, A)
        ainv = app.state_backend.get_invocation(ids["x"])
        if sc["aba"] == "running":
            app.orchestrator.set_invocation_status(ids["x"], S.RUNNING, A)

        def steps(*fns):
            def world():
                for fn in fns:
                    try:
                        fn()
                    except Exception:  # noqa: BLE001 - a step refused because the other actor got there first
                        pass
            return world

        def b_claims():
            env.b_claimed = list(app.orchestrator.get_invocations_to_run(1, B))

        if sc["aba"] == "running":
            def stale():
                runner._kill_and_reroute(ids["x"])

            world = steps(lambda: app.orchestrator.set_invocation_retry(ids["x"], RetryError("again"), A), b_claims,
                          lambda: app.orchestrator.set_invocation_status(ids["x"], S.RUNNING, B))
        else:
            def stale():
                try:
                    ainv.run(A)
                except Exception:  # noqa: BLE001
                    pass

            def rec():
                from pynenc.core_tasks import recover_pending_invocations

                clock.advance(6.0)
                context.set_current_app(app)
                context.set_runner_context(app.app_id, apps.rctx("REC"))
                recover_pending_invocations()

            world = steps(rec, b_claims)
        env.extra_actors = [("A-stale", stale), ("world", world)]
    if sc.get("release_race"):
        A = apps.rctx("A")
        app.broker.retrieve_invocation()
        app.orchestrator.set_invocation_status(ids["x"], S.PENDING, A)
        app.broker.route_invocation(ids["x"])
        app.broker.route_invocation(ids["x"])

        def release():
            app.orchestrator.reroute_invocations({ids["x"]}, A)

        env.extra_actors = [("A-release", release)]
    if sc.get("batch"):
        nb = sc["batch"]

        def batch_client():
            # a client registering a parallelize batch while runners poll (batch registration writes one history entry per invocation)
            context.set_runner_context(app.app_id, apps.rctx("CLIENT2"))
            task.parallelize([(f"b{i}", 0, 0) for i in range(nb)])

        env.extra_actors = [("client", batch_client)]
    apps.flush(app)
    return env


def run_scenario(kind: str, sc: dict, policy: sched.Policy, clock: vclock.VClock, shared: dict) -> tuple[sched.Scheduler, Env]:
    env = setup_env(kind, sc, clock, shared)
    app = env.app
    files = tuple(sc.get("mem_files", MEM_FILES)) + (HISTORY_FILES if shared.get("trace_history") else ())
    _std = set()
    for _m in sc.get("stdlib_files", ()):
        import importlib

        _std.add(importlib.import_module(_m).__file__)
    tf = (sched.trace_file_set(*files) | _std) if kind == "mem" else sched.trace_file_set("pynenc/core_tasks.py", *(HISTORY_FILES[1:] if shared.get("trace_history") else ()))
    s = sched.Scheduler(policy, clock=clock, trace_files=tf, max_steps=60_000, quantum_us=0, trace_funcs=set(sc["mem_funcs"]) if (kind == "mem" and sc.get("mem_funcs")) else None)
    env.poll_errors = []
    s.busy_faults = {tuple(x) for x in sc.get("busy_faults", ())}  # type: ignore[attr-defined]
    # claim-window tracking for the non-triviality rule: a forced switch while some poller is inside get_invocations_to_run
    env.in_poll = {"n": 0, "switch_inside": 0}

    def poller(rid: str, m: int) -> Callable[[], None]:
        rc = apps.rctx(rid)

        def f():
            env.in_poll["n"] += 1
            try:
                invs = list(app.orchestrator.get_invocations_to_run(m, rc))
            except Exception as exc:  # noqa: BLE001
                env.poll_errors.append(f"{rid}: {type(exc).__name__}: {exc}"[:200])
                invs = []
            finally:
                env.in_poll["n"] -= 1
            for inv in invs:
                try:
                    inv.run(rc)
                except Exception:  # noqa: BLE001 - task exceptions are re-raised by run()
                    pass

        return f

    last = {"a": None}

    def on_step(sc_, nxt):
        if last["a"] is not None and nxt is not last["a"] and env.in_poll["n"] > 0 and not last["a"].done:
            env.in_poll["switch_inside"] += 1
        last["a"] = nxt

    s.on_step = on_step
    if sc.get("extras_first"):
        for name, fn in env.extra_actors:
            s.spawn(name, fn)
    for rid, m in sc["pollers"]:
        s.spawn(f"poll-{rid}", poller(rid, m))
    if not sc.get("extras_first"):
        for name, fn in env.extra_actors:
            s.spawn(name, fn)
    try:
        s.run()
    finally:
        env.mon_detached = True
        orch = app.orchestrator
        for n in ("_atomic_status_transition", "_register_new_invocations", "get_invocations_to_run"):
            orch.__dict__.pop(n, None)
    return s, env


def judge(env: Env) -> list[tuple[str, str]]:
    mon = env.mon
    return scen.lifecycle_problems(mon) + scen.yield_problems(mon) + scen.body_problems(mon)


def shard(kind: str, sc_idx: int, mode: str, p_max: int, runs: int, seed: int, known: list[str], with_history: bool = False, part_name: str = "schedules", rule: str = RULE, dfs_part: tuple[int, int] | None = None) -> dict:
    part = Part(part_name, rule)
    clock = vclock.VClock(tick_us=1)
    cinst = vclock.install(clock)
    sched.install_clock_sleep(clock)
    inst = sched.install_threading()
    if kind == "sqlite":
        sched.install_sqlite(inst)
    shared: dict = {"trace_history": with_history}
    sc = SCENARIOS[sc_idx]
    try:
        def run_with(policy):
            s, env = run_scenario(kind, sc, policy, clock, shared)
            s.env = env  # type: ignore[attr-defined]
            return s

        if mode == "dfs":
            it = explore.dfs_preemptions(run_with, p_max, limit=runs, part=dfs_part)
        elif mode == "pct":
            it = explore.pct_runs(run_with, seed, runs, depth=3, est_steps=400 if kind == "mem" else 80)
        else:
            it = explore.random_runs(run_with, seed, runs, 0.15)
        special = sc["name"] != "single"
        for tag, s in it:
            env = s.env
            forced = len(tag) if isinstance(tag, dict) else 1
            inside = env.in_poll["switch_inside"] > 0
            nclaims = sum(1 for t in env.mon.transitions if t["status"] == "PENDING")
            if with_history:
                per = env.mon.per_invocation()
                nt = any(len(ts) >= 5 or len({t["by"] for t in ts if t["status"] != "REGISTERED"}) >= 2 for ts in per.values())
            else:
                nt = special and forced >= 1 and inside
            part.case(key=(kind, sc["name"], tuple(s.choices)), nontrivial=nt,
                      classes=[f"backend_{kind}", f"sc_{sc['name']}", f"mode_{mode}", f"forced{min(forced, 3)}", "switch_in_claim_window" if inside else "no_switch_in_window",
                               f"claims{min(nclaims, 4)}", "poll_raised" if env.poll_errors else "poll_ok"] + (["busy_timeout_fired" if getattr(s, "busy_fired", None) else "busy_timeout_not_reached"] if sc.get("busy_faults") else []),
                      sample={"backend": kind, "scenario": sc["name"], "steps": s.step, "choices": s.choices[:60],
                              "transitions": [(t["inv"][:6], t["status"], t["by"]) for t in env.mon.transitions][:20]})
            if s.failure is not None:
                if isinstance(s.failure, sched.Budget):
                    part.notes.append(f"inconclusive (budget) {kind}/{sc['name']}")
                    continue
                key = f"{part_name}:{kind}:deadlock"
                (part.known if key in known else lambda k: part.violation(k, str(s.failure), {"backend": kind, "scenario": sc_idx, "choices": s.choices}))(key)
                continue
            probs = judge(env) if not with_history else scen.history_problems(env.app, env.mon)
            for pk, msg in probs:
                key = f"{part_name}:{kind}:{pk}"
                if key in known:
                    part.known(key)
                else:
                    part.violation(key, f"[{kind}/{sc['name']}] {msg}", {"backend": kind, "scenario": sc_idx, "choices": s.choices, "problem": msg})
    finally:
        inst.uninstall()
        cinst.uninstall()
    return part.dump()


def plan(ctx: Ctx) -> list[tuple]:
    known = sorted(ctx.known_keys())
    jobs = []
    for kind in ("mem", "sqlite"):
        for i, sc in enumerate(SCENARIOS):
            if sc.get("busy_faults") and kind != "sqlite":
                continue
            nact = len(sc["pollers"]) + (2 if (sc.get("recovery") or sc.get("kill") or sc.get("aba")) else 0) + (1 if (sc.get("batch") or sc.get("release_race")) else 0)
            if sc.get("dfs"):
                pq, nq, pt, nt_ = sc["dfs"]  # complete search with <= p forced switches, split over n processes
                if kind == "mem":
                    nsh = nq if ctx.quick else nt_
                    if nsh == 0:
                        continue
                    for j in range(nsh):
                        jobs.append((kind, i, "dfs", pq if ctx.quick else pt, 10**9, ctx.seed, known, False, "schedules", RULE, (j, nsh)))
                else:
                    jobs.append((kind, i, "pct", 0, 60 if ctx.quick else 2500, ctx.seed, known))
            elif nact == 2:
                if ctx.quick:
                    jobs.append((kind, i, "dfs", 1, 260 if kind == "mem" else 400, ctx.seed, known))
                else:
                    jobs.append((kind, i, "dfs", 2, 6000, ctx.seed, known))
                jobs.append((kind, i, "rand", 0, 40 if ctx.quick else 1500, ctx.seed, known))
            else:
                jobs.append((kind, i, "pct", 0, 60 if ctx.quick else 2500, ctx.seed, known))
                jobs.append((kind, i, "rand", 0, 40 if ctx.quick else 2500, ctx.seed + 7, known))
    return jobs


def run(ctx: Ctx) -> None:
    jobs = plan(ctx)
    merge_parts(ctx, pmap(shard, jobs))
    ctx.assumptions.append("the harness owns the schedule: one actor runs at a time; yields at source lines of mem_orchestrator/mem_broker/base_orchestrator/dist_invocation/core_tasks (Mem) or at SQL statements and commits (SQLite)")
    ctx.assumptions.append("DFS is exhaustive over schedules with <= p forced switches only up to the per-scenario run limit stated in the job plan (quick: limit 260/400 runs, thorough: 6000); beyond it the evidence counts what was run")
    ctx.assumptions.append("monitor = wrappers on the app instance's _atomic_status_transition/_register_new_invocations/get_invocations_to_run; order of changes = record timestamps of a ticking virtual clock")


def replay(case: dict) -> int:
    c = case["case"]
    kind = c["backend"]
    clock = vclock.VClock(tick_us=1)
    cinst = vclock.install(clock)
    sched.install_clock_sleep(clock)
    inst = sched.install_threading()
    if kind == "sqlite":
        sched.install_sqlite(inst)
    try:
        s, env = run_scenario(kind, SCENARIOS[c["scenario"]], sched.Replay(list(c["choices"])), clock, {})
        probs = judge(env) + scen.history_problems(env.app, env.mon)
        for p in probs:
            print("REPRODUCED:", p)
        return 1 if probs else 0
    finally:
        inst.uninstall()
        cinst.uninstall()
