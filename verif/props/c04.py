"""C04 - recovery re-queues stuck PENDING/RUNNING work and never steals live work.

Hypothesis state machine driving a Mem app and a SQLite app in lock-step under one stepped virtual
clock (all instants on a 1/64 s grid, so every comparison at a limit is exact).  The real core-task
bodies recover_pending_invocations / recover_running_invocations are executed under a runner context.
Lost races are injected deterministically: the owner progresses on the k-th scanned id between the
scan and the recovery transition.
"""

from __future__ import annotations

from collections import Counter
from typing import Any

from verif import apps, tasks, vclock, whitebox
from verif.core import Ctx, Part, merge_parts, ncpu, pmap
from verif.hyp import Reporter, make_settings, run_machine

LEVEL = "exploration"

RULE = (
    "Hypothesis state machine (<=45 steps) on Mem and SQLite in lock-step: submit, claim, start, finish, own heartbeat (atomic-service eligible), "
    "parent-reported child heartbeats, clock advance by boundary-centred steps (limit-1/64s, limit, limit+1/64s, ...), scan_pending, scan_running, "
    "recover_pending / recover_running (real core-task bodies), the same with an injected lost race; settings max_pending_seconds and "
    "runner_considered_dead_after_minutes generated; non-trivial = history with a scan/recovery that sees >=1 stuck and >=1 live invocation, or a "
    "clock value within 1/64 s of a limit at a scan, or a lost race; distinct = operation trace"
)

G = 1 / 64
RUNNERS = ["r1", "c1", "c2"]  # c* are child workers of parent r1 (few runners: owners and heartbeats must meet often)


class Model:
    def __init__(self, max_pending: float, timeout: float) -> None:
        self.max_pending = max_pending
        self.timeout = timeout
        self.inv: dict[int, dict[str, Any]] = {}
        self.hb: dict[str, float] = {}

    def pending_scan(self, now: float) -> set[int]:
        return {i for i, r in self.inv.items() if r["status"] == "PENDING" and now - r["since"] >= self.max_pending}

    def active(self, runner: str, now: float) -> bool:
        return runner in self.hb and now - self.hb[runner] <= self.timeout

    def running_scan(self, now: float) -> set[int]:
        return {i for i, r in self.inv.items() if r["status"] == "RUNNING" and r["owner"] and not self.active(r["owner"], now)}


def machine_shard(seed: int, examples: int, steps: int, known: list[str]) -> dict:
    from hypothesis import strategies as st
    from hypothesis.stateful import RuleBasedStateMachine, initialize, precondition, rule
    from pynenc import context
    from pynenc.core_tasks import recover_pending_invocations, recover_running_invocations
    from pynenc.invocation.status import InvocationStatus as S

    part = Part("machine", RULE)
    rep = Reporter(part, known)
    clock = vclock.VClock(start_us=1_700_000_000_000_000, tick_us=0)
    cinst = vclock.install(clock)
    n_mach = [0]

    class Machine(RuleBasedStateMachine):
        def __init__(self):
            super().__init__()
            n_mach[0] += 1
            self.trace: list[Any] = []
            self.flags: set[str] = set()
            self.nontrivial = False
            self.apps: dict[str, Any] = {}
            self.ids: dict[str, dict[int, str]] = {"mem": {}, "sqlite": {}}
            self.n = 0
            self.model: Model | None = None

        def _t(self, *op):
            self.trace.append(op)
            rep.holder["case"] = {"trace": [list(map(str, o)) for o in self.trace], "conf": self.conf}

        @initialize(mp=st.sampled_from([1.0, 2.5, 5.0]), dead=st.sampled_from([0.25, 1.0]))
        def init(self, mp, dead):
            self.conf = {"max_pending_seconds": mp, "runner_considered_dead_after_minutes": dead}
            clock.us = 1_700_000_000_000_000
            for kind in ("mem", "sqlite"):
                app = apps.make_app(kind, **self.conf)
                self.apps[kind] = (app, app.task(tasks.ident))
            self.model = Model(mp, dead * 60)
            self._t("conf", mp, dead)

        # ------------------------------------------------------------------ helpers
        def now(self) -> float:
            return clock.us / 1_000_000

        def both(self):
            return [(k, a, t) for k, (a, t) in self.apps.items()]

        def _check_records(self, where: str):
            for kind, app, _ in self.both():
                for i, r in self.model.inv.items():
                    rec = app.orchestrator.get_invocation_status_record(self.ids[kind][i])
                    got = (rec.status.name, rec.runner_id if rec.status.name in ("PENDING", "RUNNING") else None)
                    exp = (r["status"], r["owner"] if r["status"] in ("PENDING", "RUNNING") else None)
                    rep.check(got == exp, f"machine:{kind}:record-mismatch:{where}", f"invocation #{i}: record {got} expected {exp}; trace tail {self.trace[-6:]}")

        def _queue_counts(self, kind):
            app = self.apps[kind][0]
            rev = {v: k for k, v in self.ids[kind].items()}
            return Counter(rev.get(x, x) for x in whitebox.queue_ids(app))

        # ------------------------------------------------------------------ rules
        @precondition(lambda self: self.model is not None and self.n < 6)
        @rule()
        def submit(self):
            i = self.n
            self.n += 1
            for kind, app, task in self.both():
                context.set_runner_context(app.app_id, apps.rctx("CLIENT"))
                inv = task(f"{n_mach[0]}-{i}")
                self.ids[kind][i] = inv.invocation_id
            self.model.inv[i] = {"status": "REGISTERED", "owner": None, "since": self.now()}
            self._t("submit", i)

        def _avail(self):
            return [i for i, r in self.model.inv.items() if r["status"] in ("REGISTERED", "REROUTED")]

        @precondition(lambda self: self.model is not None and self._avail())
        @rule(k=st.integers(0, 5), runner=st.sampled_from(RUNNERS))
        def claim(self, k, runner):
            av = self._avail()
            i = av[k % len(av)]
            for kind, app, _ in self.both():
                app.orchestrator.set_invocation_status(self.ids[kind][i], S.PENDING, apps.rctx(runner))
            self.model.inv[i].update(status="PENDING", owner=runner, since=self.now())
            self._t("claim", i, runner)

        def _with(self, status):
            return [i for i, r in self.model.inv.items() if r["status"] == status]

        @precondition(lambda self: self.model is not None and self._with("PENDING"))
        @rule(k=st.integers(0, 5))
        def start(self, k):
            ps = self._with("PENDING")
            i = ps[k % len(ps)]
            owner = self.model.inv[i]["owner"]
            for kind, app, _ in self.both():
                app.orchestrator.set_invocation_status(self.ids[kind][i], S.RUNNING, apps.rctx(owner))
            self.model.inv[i].update(status="RUNNING", since=self.now())
            self._t("start", i)

        @precondition(lambda self: self.model is not None and self._with("RUNNING"))
        @rule(k=st.integers(0, 5))
        def finish(self, k):
            rs = self._with("RUNNING")
            i = rs[k % len(rs)]
            owner = self.model.inv[i]["owner"]
            for kind, app, _ in self.both():
                app.orchestrator.set_invocation_status(self.ids[kind][i], S.SUCCESS, apps.rctx(owner))
            self.model.inv[i].update(status="SUCCESS", owner=None, since=self.now())
            self._t("finish", i)

        @precondition(lambda self: self.model is not None)
        @rule(runner=st.sampled_from(RUNNERS), eligible=st.booleans())
        def own_heartbeat(self, runner, eligible):
            for kind, app, _ in self.both():
                if eligible:
                    app.orchestrator.should_run_atomic_service(apps.rctx(runner))
                else:
                    app.orchestrator.register_runner_heartbeats([runner], can_run_atomic_service=False)
            self.model.hb[runner] = self.now()
            self.flags.add("eligible_hb" if eligible else "plain_hb")
            self._t("own_heartbeat", runner, eligible)

        @precondition(lambda self: self.model is not None)
        @rule(children=st.lists(st.sampled_from(["c1", "c2"]), min_size=1, max_size=2, unique=True))
        def parent_report(self, children):
            # what BaseRunner._report_child_runner_heartbeats does for its alive children
            for kind, app, _ in self.both():
                app.orchestrator.register_runner_heartbeats(list(children))
            for c in children:
                self.model.hb[c] = self.now()
            self.flags.add("parent_report")
            self._t("parent_report", children)

        @precondition(lambda self: self.model is not None)
        @rule(sel=st.integers(0, 11))
        def advance(self, sel):
            mp, to = self.model.max_pending, self.model.timeout
            # boundary-centred: aim at the oldest PENDING entry / oldest heartbeat of an owner
            now = self.now()
            cands = [G, 0.5, 3.0, mp - G, mp, mp + G, to - G, to, to + G]
            pend = [r["since"] for r in self.model.inv.values() if r["status"] == "PENDING"]
            if pend:
                t0 = min(pend)
                cands += [max(G, t0 + mp - now - G), max(G, t0 + mp - now), max(G, t0 + mp - now + G)]
            owners = [self.model.hb[r["owner"]] for r in self.model.inv.values() if r["status"] == "RUNNING" and r["owner"] in self.model.hb]
            if owners:
                h0 = min(owners)
                cands += [max(G, h0 + to - now - G), max(G, h0 + to - now), max(G, h0 + to - now + G)]
            dt = cands[sel % len(cands)]
            dt = round(dt / G) * G
            clock.advance(dt)
            self._t("advance", dt)

        def _near_limit(self) -> bool:
            now = self.now()
            for r in self.model.inv.values():
                if r["status"] == "PENDING" and abs((now - r["since"]) - self.model.max_pending) <= G:
                    return True
                if r["status"] == "RUNNING" and r["owner"] in self.model.hb and abs((now - self.model.hb[r["owner"]]) - self.model.timeout) <= G:
                    return True
            return False

        def _mark(self, stuck: set[int], status: str):
            live = {i for i, r in self.model.inv.items() if r["status"] == status} - stuck
            if (stuck and live) or self._near_limit():
                self.nontrivial = True
            if self._near_limit():
                self.flags.add("near_limit")
            if stuck and live:
                self.flags.add("stuck_and_live")

        @precondition(lambda self: self.model is not None and self.model.inv)
        @rule()
        def scan_pending(self):
            exp = self.model.pending_scan(self.now())
            self._mark(exp, "PENDING")
            self._t("scan_pending", sorted(exp))
            for kind, app, _ in self.both():
                rev = {v: k for k, v in self.ids[kind].items()}
                got = {rev[x] for x in app.orchestrator.get_pending_invocations_for_recovery()}
                if got - exp:
                    rep.fail(f"machine:{kind}:pending-scan-steals-live", f"scan returned {sorted(got)} but only {sorted(exp)} have been PENDING for >= {self.model.max_pending}s at t={self.now()}")
                if exp - got:
                    rep.fail(f"machine:{kind}:pending-scan-misses-stuck", f"scan returned {sorted(got)} expected {sorted(exp)} at t={self.now()}")

        @precondition(lambda self: self.model is not None and self.model.inv)
        @rule()
        def scan_running(self):
            exp = self.model.running_scan(self.now())
            self._mark(exp, "RUNNING")
            self._t("scan_running", sorted(exp))
            for kind, app, _ in self.both():
                rev = {v: k for k, v in self.ids[kind].items()}
                got = {rev[x] for x in app.orchestrator.get_running_invocations_for_recovery()}
                if got - exp:
                    rep.fail(f"machine:{kind}:running-scan-steals-live", f"scan returned {sorted(got)} but owners of {sorted(got - exp)} have a fresh heartbeat (hb={self.model.hb}, t={self.now()}, timeout={self.model.timeout})")
                if exp - got:
                    rep.fail(f"machine:{kind}:running-scan-misses-stuck", f"scan returned {sorted(got)} expected {sorted(exp)} (hb={self.model.hb}, t={self.now()}, timeout={self.model.timeout})")

        def _recover(self, which: str, race_k: int | None):
            now = self.now()
            exp = self.model.pending_scan(now) if which == "pending" else self.model.running_scan(now)
            self._mark(exp, "PENDING" if which == "pending" else "RUNNING")
            body = recover_pending_invocations if which == "pending" else recover_running_invocations
            racer_choice = None
            if race_k is not None and exp:
                racer_choice = sorted(exp)[race_k % len(exp)]
                self.flags.add("lost_race")
                self.nontrivial = True
            self._t(f"recover_{which}", sorted(exp), racer_choice)
            for kind, app, _ in self.both():
                orch = app.orchestrator
                before_q = self._queue_counts(kind)
                raised = None
                scan_name = "get_pending_invocations_for_recovery" if which == "pending" else "get_running_invocations_for_recovery"
                if racer_choice is not None:
                    orig = getattr(orch, scan_name)
                    rid = self.ids[kind][racer_choice]
                    owner = self.model.inv[racer_choice]["owner"]

                    def racing_scan(orig=orig, rid=rid, owner=owner, orch=orch):
                        for x in list(orig()):
                            if x == rid:
                                # the owner makes progress between the scan and the recovery transition
                                nxt = S.RUNNING if which == "pending" else S.SUCCESS
                                orch.set_invocation_status(rid, nxt, apps.rctx(owner))
                            yield x

                    setattr(orch, scan_name, racing_scan)
                try:
                    context.set_current_app(app)
                    context.set_runner_context(app.app_id, apps.rctx("REC"))
                    body()
                except Exception as exc:  # noqa: BLE001
                    raised = exc
                finally:
                    orch.__dict__.pop(scan_name, None)
                    context.set_runner_context(app.app_id, apps.rctx("CLIENT"))
                after_q = self._queue_counts(kind)
                # no id may be left in a *_RECOVERY status, whatever happened
                for i in self.model.inv:
                    st_ = orch.get_invocation_status(self.ids[kind][i]).name
                    if st_ in ("PENDING_RECOVERY", "RUNNING_RECOVERY"):
                        rep.fail(f"machine:{kind}:left-in-{st_}", f"after recover_{which} (raised={type(raised).__name__ if raised else None}) invocation #{i} is still {st_} and not queued; scan={sorted(exp)} racer={racer_choice}")
                for i in sorted(exp):
                    st_ = orch.get_invocation_status(self.ids[kind][i]).name
                    if i == racer_choice:
                        want = "RUNNING" if which == "pending" else "SUCCESS"
                        rep.check(st_ == want, f"machine:{kind}:race-winner-disturbed", f"#{i} won the race but is {st_}")
                        continue
                    if st_ != "REROUTED":
                        rep.fail(f"machine:{kind}:stuck-not-requeued", f"after recover_{which} (raised={type(raised).__name__ if raised else None}) stuck invocation #{i} is {st_}, expected REROUTED; scan={sorted(exp)} racer={racer_choice}")
                    elif after_q[i] != before_q[i] + 1:
                        rep.fail(f"machine:{kind}:requeue-count", f"#{i} queued {before_q[i]} -> {after_q[i]} times, expected exactly one more")
                for i in self.model.inv:
                    if i not in exp and after_q[i] != before_q[i]:
                        rep.fail(f"machine:{kind}:untouched-id-queued", f"#{i} was outside the scan but its queue count went {before_q[i]} -> {after_q[i]}")
                if raised is not None and racer_choice is None:
                    rep.fail(f"machine:{kind}:recover-raised", f"recover_{which} raised {type(raised).__name__}: {raised}")
            for i in exp:
                if i == racer_choice:
                    if which == "pending":
                        self.model.inv[i].update(status="RUNNING", since=now)
                    else:
                        self.model.inv[i].update(status="SUCCESS", owner=None, since=now)
                else:
                    self.model.inv[i].update(status="REROUTED", owner=None, since=now)
            self._check_records(f"after-recover-{which}")

        @precondition(lambda self: self.model is not None and self.model.inv)
        @rule(race=st.one_of(st.none(), st.integers(0, 5)))
        def recover_pending(self, race):
            self._recover("pending", race)

        @precondition(lambda self: self.model is not None and self.model.inv)
        @rule(race=st.one_of(st.none(), st.integers(0, 5)))
        def recover_running(self, race):
            self._recover("running", race)

        def teardown(self):
            if self.model is None:
                return
            part.case(key=self.trace, nontrivial=self.nontrivial, classes=sorted(self.flags) + [f"len{min(len(self.trace) // 15 * 15, 45)}"],
                      sample={"conf": self.conf, "trace": [list(map(str, o)) for o in self.trace[:25]]})

    try:
        run_machine(rep, Machine, seed, make_settings(examples, steps), "machine", max_buckets=4)
    finally:
        cinst.uninstall()
    return part.dump()


def run(ctx: Ctx) -> None:
    known = sorted(ctx.known_keys())
    n = ncpu()
    ex = 150 if ctx.quick else 800
    merge_parts(ctx, pmap(machine_shard, [(ctx.seed * 1000 + k, ex, 45, known) for k in range(n)]))
    ctx.assumptions.append("stepped virtual clock on a 1/64 s grid: float/datetime/SQLite REAL comparisons at a limit are exact, the model demands the documented side of >= / > without tolerance")
    ctx.assumptions.append("lost races are injected at a chosen point: the owner's next transition is issued between the scan yielding an id and the recovery transition for it")
    ctx.assumptions.append("claims are made with set_invocation_status(PENDING) on ids the model knows to be available; queue membership is read white-box (read-only)")


def replay(case: dict) -> int:
    print("machine traces are replayed by re-running the check with the recorded seed; trace:")
    for op in case["case"]["trace"]:
        print("  ", op)
    return 2
