"""C15 - arguments/results round-trip unchanged; call identity is canonical; externalised values are content-addressed.

Parts:
  serializer  deserialize(serialize(v)) == v for each serializer over its domain
  store       client_data_store.serialize/resolve: thresholds, disable flags, content addressing, references keep
              resolving to the content they were created from (stateful: mutate-after-serialize, eviction, second reader)
  trip        client -> upsert_invocations -> get_invocation -> LazyCall.arguments.kwargs and result -> client
  identity    spellings of one call get one call_id; call_id equal <=> task and serialized arguments equal
  argsid      compute_args_id(a) == compute_args_id(b) <=> a == b over string dicts incl. adversarial separators
"""

from __future__ import annotations

import copy
from typing import Any

from verif import apps, tasks
from verif.core import Ctx, Part, merge_parts, ncpu, pmap
from verif.gen import values as V
from verif.hyp import Reporter, make_settings, run_given

LEVEL = "exploration"

SERIALIZERS = ["JsonSerializer", "JsonPickleSerializer", "PickleSerializer"]

SER_RULE = "values generated recursively in the serializer's domain (scalars incl. unicode / -0.0 / inf / nan / big ints, nested lists & dicts with string keys, enums, builtin and custom exceptions, JsonSerializable objects; tuples/sets/bytes for pickle-based serializers); non-trivial = nesting depth >= 2 or an enum/exception/object leaf; distinct = (serializer, value)"
STORE_RULE = "Hypothesis cases over serializer x store (Mem/SQLite) x min_size_to_cache in {16,64,1024} x disable flags x LRU size {2,1024}: serialize values padded to straddle the threshold (-1/0/+1), mutate the original afterwards, evict, resolve from the same and from a fresh store object; non-trivial = value externalised (a reference was returned); distinct = (configuration, value, pad)"
TRIP_RULE = "full trip through a fresh app: task(**args) -> state backend -> get_invocation(...).arguments.kwargs, result -> get_result; serializer x backend x threshold; non-trivial = an argument or the result externalised or depth >= 2"
ID_RULE = "generated signatures (positional, keyword-only, defaults) x spellings (positional, keyword, permuted keywords, defaults omitted, task.args, parallelize tuple/dict/Arguments, batch route with and without common_args) and pairs of argument sets (equal, permuted, one value changed); non-trivial = non-default spelling or a changed pair"
ARGS_RULE = "pairs of str->str dicts (equal, permuted insertion order, one key/value changed, keys/values containing = ; \" \\ and unicode, concatenation-collision candidates); non-trivial = pair that differs in exactly one character or is a permutation"


def ser_shard(serializer: str, seed: int, examples: int, known: list[str]) -> dict:
    import hypothesis
    from hypothesis import given
    from pynenc.serializer.base_serializer import BaseSerializer
    from pynenc.util.subclasses import get_subclass

    part = Part("serializer", SER_RULE)
    rep = Reporter(part, known)
    ser = get_subclass(BaseSerializer, serializer)()

    @hypothesis.seed(seed)
    @make_settings(examples)
    @given(v=V.values_for(serializer, 16))
    def prop(v):
        rep.holder["case"] = {"serializer": serializer, "value": repr(v)[:300]}
        s = ser.serialize(v)
        back = ser.deserialize(s)
        special = any(t in repr(v) for t in ("Color.", "Level.", "Mode.", "Error(", "Money("))
        part.case(key=(serializer, repr(v)), nontrivial=V.depth(v) >= 2 or special,
                  classes=[serializer, f"depth{min(V.depth(v), 3)}", "special_leaf" if special else "plain"], sample={"serializer": serializer, "value": repr(v)[:120]})
        rep.check(isinstance(s, str), f"serializer:{serializer}:not-a-string", repr(type(s)))
        rep.check(V.same(v, back), f"serializer:{serializer}:roundtrip", f"{v!r} -> {back!r}")

    run_given(rep, prop, f"serializer:{serializer}")
    return part.dump()


def store_shard(serializer: str, kind: str, seed: int, examples: int, known: list[str]) -> dict:
    import hypothesis
    from hypothesis import given, strategies as st

    part = Part("store", STORE_RULE)
    rep = Reporter(part, known)
    appcache: dict[Any, Any] = {}

    def get_app(minsize, lru, disable):
        k = (minsize, lru, disable)
        if k not in appcache:
            appcache[k] = apps.make_app(kind, serializer_cls=serializer, min_size_to_cache=minsize, local_cache_size=lru, disable_client_data_store=disable)
        return appcache[k]

    others: dict[str, Any] = {}

    def other_instance(app):
        """A second Pynenc object on the same storage (another process image of the same application)."""
        if app.app_id not in others:
            from pynenc import Pynenc

            Pynenc._clear_instances()
            others[app.app_id] = Pynenc(config_values=dict(app.config_values))
        return others[app.app_id]

    @hypothesis.seed(seed)
    @make_settings(examples)
    @given(v=V.values_for(serializer, 8), minsize=st.sampled_from([16, 64, 1024]), delta=st.sampled_from([-1, 0, 1, 40]),
           lru=st.sampled_from([2, 1024]), disable=st.sampled_from([False, False, False, True]), disable_arg=st.booleans(),
           others=st.lists(st.text(min_size=20, max_size=30), max_size=3))
    def prop(v, minsize, delta, lru, disable, disable_arg, others):
        app = get_app(minsize, lru, disable)
        cds = app.client_data_store
        ser = app.serializer
        # pad so that the serialized size lands at threshold + delta
        base = V.sized(v, 0)
        size0 = len(ser.serialize(base))
        pad = max(0, minsize + delta - size0)
        if serializer == "PickleSerializer":
            # base64 grows in steps: search the pad that gets closest to the target
            for p in range(pad, pad + 8):
                if len(ser.serialize(V.sized(v, p))) >= minsize + delta:
                    pad = p
                    break
        val = V.sized(v, pad)
        ser_len = len(ser.serialize(val))
        original = copy.deepcopy(val)
        rep.holder["case"] = {"serializer": serializer, "store": kind, "min_size_to_cache": minsize, "lru": lru, "disabled": disable, "disable_arg": disable_arg, "value": repr(val)[:200]}
        ser0 = ser.serialize(val)  # the content the reference is created from
        ref = cds.serialize(val, disable_cache=disable_arg)
        is_ref = cds.is_reference(ref)
        expect_ref = (not disable) and (not disable_arg) and ser_len >= minsize
        part.case(key=(serializer, kind, minsize, lru, disable, disable_arg, repr(val)), nontrivial=is_ref,
                  classes=[serializer, f"store_{kind}", f"min{minsize}", f"delta{delta}", "externalised" if is_ref else "inline", f"lru{lru}"],
                  sample=rep.holder["case"])
        rep.check(is_ref == expect_ref, f"store:{kind}:threshold", f"serialized length {ser_len}, min_size_to_cache {minsize}, disabled={disable}/{disable_arg}: reference={is_ref}")
        # mutate the caller's object after the reference was created
        val["pad"] = val["pad"] + "MUTATED"
        val["extra"] = 1
        got = cds.resolve(ref)
        if not V.same(got, original):
            rep.fail("store:resolve-after-caller-mutation", f"[{kind}] reference resolves to {got!r:.120} but was created from {original!r:.120}")
        # the same (now mutated) object sent again: the reference must follow the content
        mutated_copy = copy.deepcopy(val)
        ref_m = cds.serialize(val, disable_cache=disable_arg)
        ref_m2 = cds.serialize(mutated_copy, disable_cache=disable_arg)
        # content = the serialized form: unordered containers (sets) may serialise equal values differently, which the
        # statement does not exclude ("equal content gives the same reference")
        canon_m = ser.serialize(val) == ser.serialize(mutated_copy)
        if not canon_m:
            part.event("equal_values_serialise_differently")
        if (canon_m and ref_m != ref_m2) or (is_ref and ref_m == ref):
            rep.fail(f"store:{kind}:stale-reference-for-mutated-object", f"serialize() of an object mutated in place returned {'the old reference' if ref_m == ref else 'another reference than for equal content'}")
        if cds.is_reference(ref_m):
            cds._deserialized_cache.clear()
            back_m = cds.resolve(ref_m)
            if not V.same(back_m, mutated_copy):
                rep.fail(f"store:{kind}:resolve-mutated-resend", f"a fresh reader resolves {back_m!r:.100} for the re-sent mutated value {mutated_copy!r:.100}")
        again = copy.deepcopy(original)
        ref2 = cds.serialize(again, disable_cache=disable_arg)
        if ser.serialize(again) == ser0:
            rep.check(ref2 == ref, f"store:{kind}:content-addressing", "equal content gave a different reference / inline string")
        # eviction pressure, then resolve again
        for o in others:
            cds.serialize({"o": o, "pad": "y" * minsize})
        got2 = cds.resolve(ref)
        if not V.same(got2, original):
            rep.fail(f"store:{kind}:resolve-after-eviction", f"{got2!r:.120} vs {original!r:.120}")
        # a reader mutates what it resolved; another resolve must still give the original content
        if isinstance(got2, dict):
            got2["tampered"] = True
        got3 = cds.resolve(ref)
        if not V.same(got3, original):
            rep.fail("store:resolve-after-reader-mutation", f"[{kind}] {got3!r:.120} vs {original!r:.120}")
        # a different process image: a fresh store object on the same backend (SQLite) / cleared cache (Mem)
        cds._deserialized_cache.clear()
        got4 = cds.resolve(ref)
        if not V.same(got4, original):
            rep.fail(f"store:{kind}:resolve-fresh-reader", f"{got4!r:.120} vs {original!r:.120}")
        if kind == "sqlite" and is_ref:
            # another instance purges the shared store, then this instance sends the same content again:
            # the new reference must resolve for a reader with a cold cache
            got_warm = cds.resolve(ref)  # warms this instance's local cache again
            other = other_instance(app)
            other.client_data_store.purge()
            ref5 = cds.serialize(copy.deepcopy(original), disable_cache=disable_arg)
            other.client_data_store._deserialized_cache.clear()
            try:
                got5 = other.client_data_store.resolve(ref5)
                if not V.same(got5, original):
                    rep.fail(f"store:{kind}:resolve-after-foreign-purge", f"{got5!r:.100} vs {original!r:.100}")
            except Exception as exc:  # noqa: BLE001
                rep.fail(f"store:{kind}:reference-dangling-after-foreign-purge", f"serialize() after another instance purged the store returned a reference that does not resolve: {type(exc).__name__}: {exc}")

    run_given(rep, prop, f"store:{kind}:{serializer}", max_buckets=4)
    return part.dump()


def trip_shard(serializer: str, kind: str, seed: int, examples: int, known: list[str]) -> dict:
    import hypothesis
    from hypothesis import given, strategies as st
    from pynenc import context

    part = Part("trip", TRIP_RULE)
    rep = Reporter(part, known)
    appcache: dict[Any, Any] = {}

    def get_app(minsize):
        if minsize not in appcache:
            app = apps.make_app(kind, serializer_cls=serializer, min_size_to_cache=minsize)
            appcache[minsize] = (app, app.task(tasks.keyed))
        return appcache[minsize]

    @hypothesis.seed(seed)
    @make_settings(examples)
    @given(k=V.values_for(serializer, 6), v=V.values_for(serializer, 6), res=V.values_for(serializer, 6), minsize=st.sampled_from([16, 64, 1024]), pad=st.sampled_from([0, 0, 70, 1100]))
    def prop(k, v, res, minsize, pad):
        app, task = get_app(minsize)
        context.set_runner_context(app.app_id, apps.rctx("CLIENT"))
        if pad:
            v = V.sized(v, pad)
            res = V.sized(res, pad)
        want = {"k": copy.deepcopy(k), "v": copy.deepcopy(v), "w": 0}
        want_res = copy.deepcopy(res)
        rep.holder["case"] = {"serializer": serializer, "backend": kind, "min_size_to_cache": minsize, "k": repr(k)[:100], "v": repr(v)[:100], "result": repr(res)[:100]}
        inv = task(k, v)
        sa = inv.call.serialized_arguments
        ext = any(app.client_data_store.is_reference(x) for x in sa.values())
        app.client_data_store._deserialized_cache.clear()  # the worker is another process image
        winv = app.state_backend.get_invocation(inv.invocation_id)
        got = winv.arguments.kwargs
        rep.check(set(got) == set(want) and all(V.same(got[x], want[x]) for x in want), f"trip:{kind}:{serializer}:arguments", f"worker sees {got!r:.200} client sent {want!r:.200}")
        rep.check(winv.call.call_id == inv.call.call_id, f"trip:{kind}:call-id-changed", "call id differs after the storage trip")
        app.state_backend.set_result(inv.invocation_id, res)
        app.client_data_store._deserialized_cache.clear()
        back = app.state_backend.get_result(inv.invocation_id)
        rep.check(V.same(back, want_res), f"trip:{kind}:{serializer}:result", f"client reads {back!r:.200} worker returned {want_res!r:.200}")
        part.case(key=(serializer, kind, minsize, repr(want), repr(want_res)), nontrivial=ext or max(V.depth(k), V.depth(v), V.depth(res)) >= 2,
                  classes=[serializer, f"backend_{kind}", "externalised" if ext else "inline", f"min{minsize}"], sample=rep.holder["case"])

    run_given(rep, prop, f"trip:{kind}:{serializer}")
    return part.dump()


def identity_shard(kind: str, seed: int, examples: int, known: list[str]) -> dict:
    import hypothesis
    from hypothesis import given, strategies as st
    from pynenc import context
    from pynenc.arguments import Arguments
    from pynenc.call import Call, PreSerializedCall

    part = Part("identity", ID_RULE)
    rep = Reporter(part, known)
    app = apps.make_app(kind, serializer_cls="JsonSerializer", min_size_to_cache=64)
    t_many = app.task(tasks.sig_many)
    t_pos = app.task(tasks.sig_pos)
    t_kw = app.task(tasks.sig_kw)
    small = st.one_of(st.integers(-3, 3), st.text(max_size=4), st.lists(st.integers(0, 3), max_size=3), st.text(min_size=70, max_size=80))

    def cid(task, args: Arguments):
        return Call(task, args).call_id

    @hypothesis.seed(seed)
    @make_settings(examples)
    @given(a=small, b=small, c=small, d=small, change=st.sampled_from(["none", "a", "b", "c", "d"]), repl=small)
    def prop(a, b, c, d, change, repl):
        context.set_runner_context(app.app_id, apps.rctx("CLIENT"))
        rep.holder["case"] = {"backend": kind, "a": repr(a), "b": repr(b), "c": repr(c), "d": repr(d), "change": change, "repl": repr(repl)}
        ref = cid(t_many, t_many.args(a, b, c, d))
        spellings = {
            "keywords": t_many.args(a=a, b=b, c=c, d=d),
            "permuted": t_many.args(d=d, c=c, b=b, a=a),
            "mixed": t_many.args(a, b, d=d, c=c),
        }
        if c == "c" and d is None:
            spellings["defaults_omitted"] = t_many.args(a, b)
        for name, args in spellings.items():
            rep.check(cid(t_many, args) == ref, f"identity:{kind}:spelling:{name}", f"call id differs for spelling {name}")
        # defaults bound: f(a) == f(a, 2, c=3)
        rep.check(cid(t_pos, t_pos.args(a)) == cid(t_pos, t_pos.args(a, 2, c=3)), f"identity:{kind}:defaults-positional", "sig_pos(a) vs sig_pos(a, 2, c=3)")
        rep.check(cid(t_kw, t_kw.args()) == cid(t_kw, t_kw.args(b=2, a=1)), f"identity:{kind}:defaults-kwonly", "sig_kw() vs sig_kw(b=2, a=1)")
        # through the submission paths (real invocations)
        inv = t_many(a, b, c, d)
        rep.check(inv.call.call_id == ref, f"identity:{kind}:task-call", "task(...) call id differs from Call(task, args)")
        grp = t_many.parallelize([(a, b, c, d), {"a": a, "b": b, "c": c, "d": d}, t_many.args(a, b, c, d)])
        for i, gi in enumerate(grp.invocations):
            rep.check(gi.call.call_id == ref, f"identity:{kind}:parallelize-form{i}", f"parallelize element {i} has another call id")
        # batch path with common_args: defaults of the signature must be part of the identity as well
        pre = PreSerializedCall(t_many, other_args={"a": a, "b": b, "c": c, "d": d})
        rep.check(pre.call_id == ref, f"identity:{kind}:preserialized-full", "PreSerializedCall with all arguments has another call id")
        if c == "c" and d is None:
            grp2 = t_many.parallelize([{"b": b}, {"b": b}], common_args={"a": a})
            for gi in grp2.invocations:
                rep.check(gi.call.call_id == ref, f"identity:{kind}:common-args-defaults", "parallelize(..., common_args) call with defaults omitted has another call id than the fully spelled call")
        # a per-call value that repeats a common key overrides it - also when it only differs in type (1 vs 1.0, 0 vs False)
        for common_v, call_v in ((1, 1.0), (0, False), (1, True), (2.0, 2)):
            grp3 = t_many.parallelize([{"a": call_v, "b": b}, {"b": b}], common_args={"a": common_v, "c": c, "d": d})
            want = [Call(t_many, t_many.args(call_v, b, c, d)), Call(t_many, t_many.args(common_v, b, c, d))]
            for gi, w in zip(grp3.invocations, want):
                rep.check(gi.call.call_id == w.call_id, f"identity:{kind}:common-args-override-id", f"parallelize([{{a: {call_v!r}}}], common_args={{a: {common_v!r}}}) has another call id than the direct call")
                rep.check(gi.call.serialized_arguments == w.serialized_arguments, f"identity:{kind}:common-args-override-serialized",
                          f"parallelize([{{a: {call_v!r}}}], common_args={{a: {common_v!r}}}) serialises a={gi.call.serialized_arguments.get('a')!r}, the direct call a={w.serialized_arguments.get('a')!r}")
        # changed pair: identity equal <=> serialized arguments equal
        vals = {"a": a, "b": b, "c": c, "d": d}
        vals2 = dict(vals)
        if change != "none":
            vals2[change] = repl
        c1, c2 = Call(t_many, t_many.args(**vals)), Call(t_many, t_many.args(**vals2))
        same_ser = c1.serialized_arguments == c2.serialized_arguments
        rep.check((c1.call_id == c2.call_id) == same_ser, f"identity:{kind}:iff-serialized-equal", f"call ids equal={c1.call_id == c2.call_id} serialized equal={same_ser}")
        rep.check(same_ser == all(V.same(vals[x], vals2[x]) for x in vals), f"identity:{kind}:serialized-iff-values", "serialized arguments equal but values differ (or the reverse)")
        rep.check(Call(t_pos, t_pos.args(a)).call_id != Call(t_many, t_many.args(a, b)).call_id, f"identity:{kind}:task-part", "different tasks share a call id")
        nt = change != "none" or True
        part.case(key=(kind, repr(vals), change, repr(repl)), nontrivial=nt, classes=[f"backend_{kind}", f"change_{change}", "defaults" if (c == "c" and d is None) else "explicit"], sample=rep.holder["case"])

    # make defaults cases frequent: hypothesis rarely draws c == "c" and d is None, so run a directed sub-family too
    def directed():
        for a in (1, "x", [1, 2]):
            for b in (0, "y" * 75):
                prop.hypothesis.inner_test(a, b, "c", None, "none", 0)
                prop.hypothesis.inner_test(a, b, "c", None, "b", "other")

    run_given(rep, prop, f"identity:{kind}", max_buckets=4)
    try:
        directed()
    except Exception as exc:  # noqa: BLE001
        from verif.hyp import Fail

        if isinstance(exc, Fail):
            if exc.key in rep.known:
                part.known(exc.key)
            elif exc.key not in rep.collected:
                part.violation(exc.key, exc.msg, rep.holder.get("case"))
        else:
            raise
    return part.dump()


def argsid_shard(seed: int, examples: int, known: list[str]) -> dict:
    import hypothesis
    from hypothesis import given, strategies as st
    from pynenc.call import compute_args_id

    part = Part("argsid", ARGS_RULE)
    rep = Reporter(part, known)
    alphabet = st.sampled_from(list('ab=;"\\,:{} \n') + ["é", " ", "\x00"])
    s = st.text(alphabet=alphabet, max_size=5)
    d = st.dictionaries(s, s, max_size=3)

    def ref_key(x: dict) -> tuple:
        return tuple(sorted(x.items()))

    @hypothesis.seed(seed)
    @make_settings(examples)
    @given(a=d, how=st.sampled_from(["equal", "permute", "key", "value", "split", "free"]), b=d, i=st.integers(0, 10), ch=alphabet)
    def prop(a, how, b, i, ch):
        if how == "equal":
            b = dict(a)
        elif how == "permute":
            b = dict(reversed(list(a.items())))
        elif how in ("key", "value") and a:
            ks = sorted(a)
            k = ks[i % len(ks)]
            b = dict(a)
            if how == "value":
                b[k] = a[k] + ch
            else:
                b[k + ch] = b.pop(k)
        elif how == "split" and a:
            # move the boundary between a key and its value: {"ab": "c"} vs {"a": "bc"}
            ks = sorted(a)
            k = ks[i % len(ks)]
            b = dict(a)
            v = b.pop(k)
            joined = k + v
            cut = i % (len(joined) + 1)
            b[joined[:cut]] = joined[cut:]
        rep.holder["case"] = {"a": a, "b": b, "how": how}
        ia, ib = compute_args_id(a), compute_args_id(b)
        eq = ref_key(a) == ref_key(b)
        part.case(key=(repr(sorted(a.items())), repr(sorted(b.items()))), nontrivial=how in ("permute", "key", "value", "split") and bool(a),
                  classes=[f"how_{how}", "equal_dicts" if eq else "different_dicts"], sample=rep.holder["case"])
        rep.check(isinstance(ia, str) and len(ia) > 0, "argsid:not-a-string", repr(ia))
        if eq:
            rep.check(ia == ib, "argsid:equal-dicts-different-id", f"{a!r} vs {b!r}")
        else:
            rep.check(ia != ib, "argsid:collision", f"{a!r} and {b!r} share args id {ia}")

    run_given(rep, prop, "argsid")
    return part.dump()


def run(ctx: Ctx) -> None:
    known = sorted(ctx.known_keys())
    q = ctx.quick
    jobs_ser = [(s, ctx.seed * 100 + i, 400 if q else 20000, known) for i, s in enumerate(SERIALIZERS)]
    jobs_store = [(s, k, ctx.seed * 100 + 10 + i, 120 if q else 5000, known) for i, (s, k) in enumerate([(s, k) for s in SERIALIZERS for k in ("mem", "sqlite")])]
    jobs_trip = [(s, k, ctx.seed * 100 + 30 + i, 60 if q else 3000, known) for i, (s, k) in enumerate([(s, k) for s in SERIALIZERS for k in ("mem", "sqlite")])]
    jobs_id = [(k, ctx.seed * 100 + 50 + i, 60 if q else 3000, known) for i, k in enumerate(("mem", "sqlite"))]
    jobs_args = [(ctx.seed * 100 + 60 + i, 1500 if q else 100000, known) for i in range(2)]
    all_jobs = [(ser_shard, j) for j in jobs_ser] + [(store_shard, j) for j in jobs_store] + [(trip_shard, j) for j in jobs_trip] + [(identity_shard, j) for j in jobs_id] + [(argsid_shard, j) for j in jobs_args]
    res = pmap(_dispatch, [(f.__name__, j) for f, j in all_jobs])
    merge_parts(ctx, res)
    try:
        from verif.props import c15_fuzz

        c15_fuzz.run(ctx)
    except ImportError:
        pass
    ctx.extra["generator_filtered_reserved_prefix_candidates"] = "strings starting with a reserved prefix (__pynenc__, py/) are not generated (reserved by serializer/constants.py / jsonpickle); non-string dict keys only for PickleSerializer"
    ctx.assumptions.append("equality is structural, type-aware and NaN-aware; exceptions compare by type and args")
    ctx.assumptions.append("'another process image' is emulated by clearing the store's process-local cache before reading")


def _dispatch(name: str, args: tuple) -> dict:
    return globals()[name](*args)


def replay(case: dict) -> int:
    c = case["case"]
    if "a" in c and "b" in c and "how" in c:
        from pynenc.call import compute_args_id

        ia, ib = compute_args_id(c["a"]), compute_args_id(c["b"])
        eq = sorted(c["a"].items()) == sorted(c["b"].items())
        print("ids", ia, ib, "dicts equal", eq)
        return 1 if (ia == ib) != eq else 0
    print("re-run the check with the recorded seed to replay this case:", c)
    return 2
