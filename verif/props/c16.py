"""C16 - in-memory and SQLite backends are observationally equivalent.

One Hypothesis state machine drives a Mem app and a SQLite app in lock-step under one virtual clock over the public
operation alphabet of orchestrator, broker, state backend, trigger store and client data store, with small universes
(<= 8 invocations, 3 tasks, 3 argument values, 3 runners).  Oracle: differential - same return value (sets where the
order is unspecified), same error family, same later observations (snapshot digest) - plus the reference models of the
other checks where they apply (lifecycle, queue).
"""

from __future__ import annotations

import itertools
from collections import deque
from datetime import UTC, datetime, timedelta
from typing import Any

from verif import apps, observe, tasks, vclock, whitebox
from verif.core import Ctx, Part, merge_parts, ncpu, pmap
from verif.hyp import Reporter, make_settings, run_machine
from verif.models import lifecycle as L

LEVEL = "exploration"

RULE = (
    "Hypothesis state machine (<=60 operations; thorough adds exhaustive sequences of length <=3 over a reduced alphabet) on a Mem and a SQLite app in "
    "lock-step with a virtual clock: register (3 tasks x 3 argument values, single and batch), status requests, queries by task / arguments / status, "
    "pagination, counts, filter-by-status, retries, heartbeats and active-runner queries, clock advances, recovery scans, auto-purge, wait-graph operations, "
    "queue operations, results / exceptions / history / workflow data / workflow runs / child lookups / time-range scans, trigger conditions, valid "
    "conditions, run claims with expiry, cron bookkeeping, client data, component purges; non-trivial = sequence with >=1 mutation followed by >=2 different "
    "queries; distinct = operation trace"
)

TASK_FUNCS = ["keyed", "ident", "other"]
RUNNERS = ["A", "B", "C"]


def family(exc: BaseException) -> str:
    from pynenc.exceptions import InvocationNotFoundError, InvocationStatusOwnershipError, InvocationStatusTransitionError

    if isinstance(exc, InvocationStatusTransitionError):
        return "transition"
    if isinstance(exc, InvocationStatusOwnershipError):
        return "ownership"
    if isinstance(exc, (KeyError, InvocationNotFoundError)):
        return "notfound"
    return type(exc).__name__


class Side:
    def __init__(self, kind: str, n: int) -> None:
        from pynenc import context
        from pynenc.conf.config_task import ConcurrencyControlType as CC

        self.kind = kind
        self.app = apps.make_app(kind, max_pending_seconds=5.0, runner_considered_dead_after_minutes=1.0, min_size_to_cache=64,
                                 auto_final_invocation_purge_hours=1.0)
        self.tasks = {
            "keyed": self.app.task(tasks.keyed, running_concurrency=CC.KEYS, key_arguments=("k",)),
            "ident": self.app.task(tasks.ident, running_concurrency=CC.ARGUMENTS),
            "other": self.app.task(tasks.other),
        }
        context.set_runner_context(self.app.app_id, apps.rctx("CLIENT"))
        self.ids: list[str] = []
        self.calls: list[Any] = []

    def idx(self, inv_id: Any) -> Any:
        try:
            return self.ids.index(str(inv_id))
        except ValueError:
            return f"?{inv_id}"

    def idxs(self, it: Any) -> list[Any]:
        return [self.idx(x) for x in it]


def machine_shard(seed: int, examples: int, steps: int, known: list[str]) -> dict:
    from hypothesis import strategies as st
    from hypothesis.stateful import RuleBasedStateMachine, initialize, precondition, rule
    from pynenc import context
    from pynenc.invocation.status import InvocationStatus as S
    from pynenc.trigger.conditions import ValidCondition
    from pynenc.trigger.conditions.cron import CronCondition
    from pynenc.trigger.conditions.event import EventCondition, EventContext
    from pynenc.trigger.trigger_builder import TriggerBuilder
    from pynenc.workflow.workflow_identity import WorkflowIdentity

    part = Part("machine", RULE)
    rep = Reporter(part, known)
    clock = vclock.VClock(start_us=1_700_000_000_000_000, tick_us=1000)
    cinst = vclock.install(clock)
    n_m = [0]
    statuses = st.sampled_from(L.STATUSES)
    status_sets = st.lists(statuses, min_size=1, max_size=3, unique=True)

    class Machine(RuleBasedStateMachine):
        def __init__(self):
            super().__init__()
            n_m[0] += 1
            clock.us = 1_700_000_000_000_000
            self.sides = [Side("mem", n_m[0]), Side("sqlite", n_m[0])]
            self.trace: list[Any] = []
            self.mutations = 0
            self.queries_after_mutation: set[str] = set()
            self.nontrivial = False
            self.model_status: list[str] = []
            self.model_owner: list[Any] = []
            self.queue: deque[int] = deque()
            self.purged: set[str] = set()
            self.trig_model: dict[str, tuple[str, tuple[str, ...]]] = {}
            self.trig_cleaned = False

        # ------------------------------------------------------------------ plumbing
        def _t(self, *op):
            self.trace.append(op)
            rep.holder["case"] = {"trace": [list(map(str, o)) for o in self.trace]}

        def both(self, name: str, fn: Any, canon: Any = None, mutation: bool = False) -> Any:
            """Run fn(side) on both apps; compare the canonical results / error families."""
            outs = []
            for sd in self.sides:
                context.set_runner_context(sd.app.app_id, apps.rctx("CLIENT"))
                try:
                    r = fn(sd)
                    if canon is not None:
                        r = canon(sd, r)
                    outs.append(("ok", r))
                    if mutation:
                        apps.flush(sd.app)  # background history writers finish before the next operation
                except Exception as exc:  # noqa: BLE001 - compared by family
                    outs.append(("err", family(exc), str(exc)[:80]))
            if mutation:
                self.mutations += 1
                self.queries_after_mutation = set()
            else:
                if self.mutations:
                    self.queries_after_mutation.add(name)
                    if len(self.queries_after_mutation) >= 2:
                        self.nontrivial = True
            a, b = outs
            if a[:2] != b[:2]:
                rep.fail(f"machine:{name}:differs", f"{name}: mem {a} vs sqlite {b}; trace tail {self.trace[-6:]}")
            return a

        def n(self) -> int:
            return len(self.sides[0].ids)

        @initialize(pro=st.booleans())
        def prologue(self, pro):
            """Every second history starts from a state with two invocations of one call, one of them finished
            (so that later auto-purges, call lookups and counts meet a shared call with a purged member)."""
            if pro:
                self.register("keyed", 0)
                self.register("keyed", 0)
                self.finish(0, "SUCCESS")

        # ------------------------------------------------------------------ orchestrator: registration / status
        @precondition(lambda self: self.n() < 8)
        @rule(t=st.sampled_from(TASK_FUNCS), a=st.sampled_from([0, 0, 1, 2]))
        def register(self, t, a):
            self._t("register", t, a)

            def fn(sd):
                inv = sd.tasks[t](a)
                sd.ids.append(str(inv.invocation_id))
                sd.calls.append(inv.call.call_id)
                return "new"

            self.both("register", fn, mutation=True)
            self.model_status.append("REGISTERED")
            self.model_owner.append(None)
            self.queue.append(self.n() - 1)

        @precondition(lambda self: self.n() < 6)
        @rule(k=st.integers(2, 3))
        def register_batch(self, k):
            self._t("register_batch", k)

            def fn(sd):
                grp = sd.tasks["other"].parallelize([(f"b{len(sd.ids)}-{i}",) for i in range(k)])
                for inv in grp.invocations:
                    sd.ids.append(str(inv.invocation_id))
                    sd.calls.append(inv.call.call_id)
                return k

            self.both("register_batch", fn, mutation=True)
            for _ in range(k):
                self.model_status.append("REGISTERED")
                self.model_owner.append(None)
                self.queue.append(len(self.model_status) - 1)

        @precondition(lambda self: self.n() > 0)
        @rule(i=st.integers(0, 7), tgt=statuses, runner=st.sampled_from(RUNNERS), guided=st.booleans(), pick=st.integers(0, 5))
        def status(self, i, tgt, runner, guided, pick):
            target = tgt
            i = i % self.n()
            cur, owner = self.model_status[i], self.model_owner[i]
            if cur == "PURGED":
                return
            if guided:
                succ = sorted(t for (s, t) in L.EDGES if s == cur)
                if not succ:
                    return
                target = succ[pick % len(succ)]
                if cur in L.OWNED and pick % 4:
                    runner = owner
            self._t("status", i, target, runner)
            exp = L.step(cur, owner if cur != "REGISTERED" else None, target, runner)
            out = self.both("status", lambda sd: sd.app.orchestrator.set_invocation_status(sd.ids[i], S[target], apps.rctx(runner)) or "ok", mutation=True)
            want = "ok" if exp[0] == L.OK else ("transition" if exp[0] == L.TRANSITION_ERROR else "ownership")
            got = "ok" if out[0] == "ok" else out[1]
            if "state_backend" not in self.purged and cur != "PURGED":
                rep.check(got == want, "machine:status:model-disagrees", f"request {cur}/{owner} -> {target} by {runner}: both backends answered {got}, the lifecycle model says {want}")
            # follow what the (agreeing) backends actually hold
            try:
                mem = self.sides[0]
                r = mem.app.orchestrator.get_invocation_status_record(mem.ids[i])
                self.model_status[i] = r.status.name
                self.model_owner[i] = r.runner_id if r.status.name in L.OWNED else None
            except KeyError:
                self.model_status[i] = "PURGED"

        @precondition(lambda self: self.n() > 0)
        @rule(i=st.integers(0, 7), how=st.sampled_from(["SUCCESS", "FAILED"]))
        def finish(self, i, how):
            """Drive a REGISTERED invocation to a final status (sets it up for auto-purge)."""
            i = i % self.n()
            if self.model_status[i] != "REGISTERED":
                return
            self._t("finish", i, how)
            for target in ("PENDING", "RUNNING", how):
                self.both("status", lambda sd, target=target: sd.app.orchestrator.set_invocation_status(sd.ids[i], S[target], apps.rctx("A")) or "ok", mutation=True)
            self.model_status[i], self.model_owner[i] = how, None

        @precondition(lambda self: self.n() > 0)
        @rule(i=st.integers(0, 7))
        def record(self, i):
            i = i % self.n()
            self._t("record", i)
            self.both("record", lambda sd: (lambda r: (r.status.name, r.runner_id if r.status.name != "REGISTERED" else None))(sd.app.orchestrator.get_invocation_status_record(sd.ids[i])))

        # ------------------------------------------------------------------ orchestrator: queries
        @rule(t=st.sampled_from(TASK_FUNCS), sts=st.one_of(st.none(), status_sets), a=st.one_of(st.none(), st.integers(0, 2)))
        def existing(self, t, sts, a):
            self._t("existing", t, sts, a)

            def fn(sd):
                task = sd.tasks[t]
                keyargs = None
                if a is not None and t != "other":
                    from pynenc.call import Call

                    call = Call(task, task.args(a))
                    keyargs = call.serialized_args_for_concurrency_control(task.conf.running_concurrency)
                stl = [S[s] for s in sts] if sts else None
                return sorted(map(str, sd.idxs(sd.app.orchestrator.get_existing_invocations(task, keyargs, stl))))

            self.both("get_existing_invocations", fn)

        @rule(t=st.sampled_from(TASK_FUNCS))
        def by_task(self, t):
            self._t("by_task", t)
            self.both("get_task_invocation_ids", lambda sd: sorted(map(str, sd.idxs(sd.app.orchestrator.get_task_invocation_ids(sd.tasks[t].task_id)))))

        @precondition(lambda self: self.n() > 0)
        @rule(i=st.integers(0, 7))
        def by_call(self, i):
            i = i % self.n()
            self._t("by_call", i)
            self.both("get_call_invocation_ids", lambda sd: sorted(map(str, sd.idxs(sd.app.orchestrator.get_call_invocation_ids(sd.calls[i])))))

        @rule(t=st.one_of(st.none(), st.sampled_from(TASK_FUNCS)), sts=st.one_of(st.none(), status_sets))
        def count(self, t, sts):
            self._t("count", t, sts)
            self.both("count_invocations", lambda sd: sd.app.orchestrator.count_invocations(sd.tasks[t].task_id if t else None, [S[s] for s in sts] if sts else None))

        @rule(t=st.one_of(st.none(), st.sampled_from(TASK_FUNCS)), sts=st.one_of(st.none(), status_sets), limit=st.sampled_from([1, 2, 3, 100]), offset=st.integers(0, 3))
        def paginated(self, t, sts, limit, offset):
            self._t("paginated", t, sts, limit, offset)
            def fn(sd):
                page = sd.app.orchestrator.get_invocation_ids_paginated(sd.tasks[t].task_id if t else None, [S[s] for s in sts] if sts else None, limit, offset)
                # newest first; invocations whose records carry the same timestamp (batch registration) may come in any order:
                # compare the page as the sequence of record timestamps + the ids whose timestamp is unique on the page
                ts = [round(sd.app.orchestrator.get_invocation_status_record(x).timestamp.timestamp(), 3) for x in page]
                all_ts = []
                for y in sd.ids:
                    try:
                        all_ts.append(round(sd.app.orchestrator.get_invocation_status_record(y).timestamp.timestamp(), 3))
                    except KeyError:
                        pass
                uniq = [sd.idx(x) if all_ts.count(tt) == 1 else "tie" for x, tt in zip(page, ts)]
                return (len(page), uniq, ts == sorted(ts, reverse=True))

            self.both("get_invocation_ids_paginated", fn)

        @precondition(lambda self: self.n() > 0)
        @rule(sel=st.lists(st.integers(0, 7), min_size=1, max_size=4, unique=True), sts=status_sets)
        def filter_status(self, sel, sts):
            sel = sorted({x % self.n() for x in sel})
            self._t("filter_by_status", sel, sts)
            self.both("filter_by_status", lambda sd: sorted(map(str, sd.idxs(sd.app.orchestrator.filter_by_status([sd.ids[x] for x in sel], frozenset(S[s] for s in sts))))))

        @precondition(lambda self: self.n() > 0)
        @rule(i=st.integers(0, 7), inc=st.booleans())
        def retries(self, i, inc):
            i = i % self.n()
            if self.model_status[i] == "PURGED":
                return  # mutations addressed to an auto-purged invocation are outside the caller contract
            self._t("retries", i, inc)
            if inc:
                self.both("increment_invocation_retries", lambda sd: sd.app.orchestrator.increment_invocation_retries(sd.ids[i]), mutation=True)
            self.both("get_invocation_retries", lambda sd: sd.app.orchestrator.get_invocation_retries(sd.ids[i]))

        # ------------------------------------------------------------------ clock, runners, recovery, purge
        @rule(dt=st.sampled_from([0.5, 4.9, 5.0, 5.1, 59.0, 60.0, 61.0, 3599.0, 3600.0, 3601.0]))
        def advance(self, dt):
            self._t("advance", dt)
            clock.advance(dt)

        @rule(rs=st.lists(st.sampled_from(RUNNERS), min_size=1, max_size=2, unique=True), flag=st.booleans())
        def heartbeat(self, rs, flag):
            self._t("heartbeat", rs, flag)
            self.both("register_runner_heartbeats", lambda sd: sd.app.orchestrator.register_runner_heartbeats(list(rs), can_run_atomic_service=flag), mutation=True)

        @rule(flag=st.one_of(st.none(), st.booleans()))
        def active(self, flag):
            self._t("active_runners", flag)
            self.both("get_active_runners", lambda sd: [(r.runner_id, r.allow_to_run_atomic_service) for r in sd.app.orchestrator.get_active_runners(flag)])

        @rule(r=st.sampled_from(RUNNERS))
        def should_run(self, r):
            self._t("should_run_atomic_service", r)
            self.both("should_run_atomic_service", lambda sd: bool(sd.app.orchestrator.should_run_atomic_service(apps.rctx(r))), mutation=True)

        @rule()
        def scans(self):
            self._t("recovery_scans")
            self.both("get_pending_invocations_for_recovery", lambda sd: sorted(map(str, sd.idxs(sd.app.orchestrator.get_pending_invocations_for_recovery()))))
            self.both("get_running_invocations_for_recovery", lambda sd: sorted(map(str, sd.idxs(sd.app.orchestrator.get_running_invocations_for_recovery()))))

        @rule(late=st.booleans())
        def auto_purge(self, late):
            self._t("auto_purge", late)
            if late:
                clock.advance(3601.0)  # past auto_final_invocation_purge_hours (1 h)
            self.both("auto_purge", lambda sd: sd.app.orchestrator.auto_purge(), mutation=True)
            # everything a user can ask about the survivors must still agree
            for i in range(self.n()):
                self.both("get_call_invocation_ids", lambda sd, i=i: sorted(map(str, sd.idxs(sd.app.orchestrator.get_call_invocation_ids(sd.calls[i])))))
            for t in TASK_FUNCS:
                self.both("get_task_invocation_ids", lambda sd, t=t: sorted(map(str, sd.idxs(sd.app.orchestrator.get_task_invocation_ids(sd.tasks[t].task_id)))))
                self.both("get_existing_invocations", lambda sd, t=t: sorted(map(str, sd.idxs(sd.app.orchestrator.get_existing_invocations(sd.tasks[t], None, None)))))
            self.both("count_invocations", lambda sd: sd.app.orchestrator.count_invocations())
            # purged invocations disappear from the orchestrator on both sides: resynchronise the model from Mem
            mem = self.sides[0]
            for i in range(self.n()):
                try:
                    mem.app.orchestrator.get_invocation_status(mem.ids[i])
                except KeyError:
                    self.model_status[i] = "PURGED"

        # ------------------------------------------------------------------ wait graph
        @precondition(lambda self: self.n() >= 2)
        @rule(w=st.integers(0, 7), ts=st.lists(st.integers(0, 7), min_size=1, max_size=2, unique=True))
        def wait(self, w, ts):
            w = w % self.n()
            ts = sorted({t % self.n() for t in ts} - {w})
            ts = [t for t in ts if self.model_status[t] not in L.FINAL and self.model_status[t] != "PURGED"]
            if not ts or self.model_status[w] in L.FINAL or self.model_status[w] == "PURGED":
                return
            self._t("wait", w, ts)
            self.both("waiting_for_results", lambda sd: sd.app.orchestrator.waiting_for_results(sd.ids[w], [sd.ids[t] for t in ts]), mutation=True)

        @rule(nmax=st.sampled_from([0, 1, 100]))
        def blocking(self, nmax):
            self._t("blocking", nmax)
            if nmax == 100:
                self.both("get_blocking_invocations", lambda sd: sorted(map(str, sd.idxs(sd.app.orchestrator.get_blocking_invocations(100)))))
            else:
                self.both("get_blocking_invocations(count)", lambda sd: len(list(sd.app.orchestrator.get_blocking_invocations(nmax))))

        # ------------------------------------------------------------------ broker
        @precondition(lambda self: self.n() > 0)
        @rule(i=st.integers(0, 7))
        def route(self, i):
            i = i % self.n()
            self._t("route", i)
            self.both("route_invocation", lambda sd: sd.app.broker.route_invocation(sd.ids[i]), mutation=True)
            self.queue.append(i)

        @rule()
        def retrieve(self):
            self._t("retrieve")
            out = self.both("retrieve_invocation", lambda sd: (lambda x: None if x is None else sd.idx(x))(sd.app.broker.retrieve_invocation()), mutation=True)
            exp = self.queue.popleft() if self.queue else None
            if out[0] == "ok":
                rep.check(out[1] == exp, "machine:retrieve:model-disagrees", f"both brokers returned {out[1]}, the queue model says {exp}")

        @rule()
        def queue_count(self):
            self._t("queue_count")
            out = self.both("broker.count_invocations", lambda sd: sd.app.broker.count_invocations())
            if out[0] == "ok":
                rep.check(out[1] == len(self.queue), "machine:queue-count:model-disagrees", f"{out[1]} vs model {len(self.queue)}")

        # ------------------------------------------------------------------ state backend
        @precondition(lambda self: self.n() > 0)
        @rule(i=st.integers(0, 7), big=st.booleans(), exc=st.booleans())
        def store_outcome(self, i, big, exc):
            i = i % self.n()
            if self.model_status[i] == "PURGED":
                return
            self._t("store_outcome", i, big, exc)
            val = {"v": i, "pad": "x" * (200 if big else 1)}
            if exc:
                self.both("set_exception", lambda sd: sd.app.state_backend.set_exception(sd.ids[i], ValueError("boom", i)), mutation=True)
            else:
                self.both("set_result", lambda sd: sd.app.state_backend.set_result(sd.ids[i], val), mutation=True)

        @precondition(lambda self: self.n() > 0)
        @rule(i=st.integers(0, 7))
        def read_outcome(self, i):
            i = i % self.n()
            self._t("read_outcome", i)
            self.both("get_result", lambda sd: repr(sd.app.state_backend.get_result(sd.ids[i])))
            self.both("get_exception", lambda sd: repr(sd.app.state_backend.get_exception(sd.ids[i])))

        @precondition(lambda self: self.n() > 0)
        @rule(i=st.integers(0, 7))
        def history(self, i):
            i = i % self.n()
            self._t("history", i)

            def fn(sd):
                apps.flush(sd.app)
                h = sd.app.state_backend.get_history(sd.ids[i])
                return [(x.status_record.status.name, x.runner_context_id) for x in sorted(h, key=lambda x: (x.status_record.timestamp, x.timestamp))]

            self.both("get_history", fn)

        @precondition(lambda self: self.n() > 0)
        @rule(i=st.integers(0, 7), key=st.sampled_from(["a", "b"]), val=st.one_of(st.none(), st.integers(0, 3), st.text(max_size=3)), write=st.booleans())
        def workflow_data(self, i, key, val, write):
            i = i % self.n()
            self._t("workflow_data", i, key, val, write)

            def wf(sd):
                return sd.app.state_backend.get_invocation(sd.ids[i]).workflow

            if write and val is not None:
                self.both("set_workflow_data", lambda sd: sd.app.state_backend.set_workflow_data(wf(sd), key, val), mutation=True)
            self.both("get_workflow_data", lambda sd: repr(sd.app.state_backend.get_workflow_data(wf(sd), key, "DEFAULT")))

        @precondition(lambda self: self.n() > 0)
        @rule(i=st.integers(0, 7))
        def workflow_run(self, i):
            i = i % self.n()
            self._t("workflow_run", i)
            self.both("store_workflow_run", lambda sd: sd.app.state_backend.store_workflow_run(sd.app.state_backend.get_invocation(sd.ids[i]).workflow), mutation=True)
            self.both("get_all_workflow_runs", lambda sd: sorted(map(str, sd.idxs(w.workflow_id for w in sd.app.state_backend.get_all_workflow_runs()))))
            self.both("get_all_workflow_types", lambda sd: sorted(t.key for t in sd.app.state_backend.get_all_workflow_types()))

        @precondition(lambda self: self.n() >= 2)
        @rule(i=st.integers(0, 7), j=st.integers(0, 7))
        def workflow_sub(self, i, j):
            i, j = i % self.n(), j % self.n()
            self._t("workflow_sub", i, j)
            self.both("store_workflow_sub_invocation", lambda sd: sd.app.state_backend.store_workflow_sub_invocation(sd.ids[i], sd.ids[j]), mutation=True)
            self.both("get_workflow_sub_invocations", lambda sd: sorted(map(str, sd.idxs(sd.app.state_backend.get_workflow_sub_invocations(sd.ids[i])))))

        @precondition(lambda self: self.n() > 0)
        @rule(i=st.integers(0, 7))
        def stored(self, i):
            i = i % self.n()
            self._t("get_invocation", i)
            self.both("get_invocation", lambda sd: (lambda inv: (sd.idx(inv.invocation_id), inv.call.call_id.key, repr(sorted(inv.call.serialized_arguments.items()))[:80]))(sd.app.state_backend.get_invocation(sd.ids[i])))
            self.both("get_child_invocations", lambda sd: sorted(map(str, sd.idxs(sd.app.state_backend.get_child_invocations(sd.ids[i])))))
            self.both("get_invocation_ids_by_workflow", lambda sd: sorted(map(str, sd.idxs(sd.app.state_backend.get_invocation_ids_by_workflow(workflow_id=sd.ids[i])))))

        @rule(back=st.sampled_from([1.0, 10.0, 4000.0]), batch=st.sampled_from([1, 2, 100]))
        def timerange(self, back, batch):
            self._t("timerange", back, batch)

            def fn(sd):
                apps.flush(sd.app)
                end = clock.now(UTC)
                start = end - timedelta(seconds=back)
                ids = [sorted(map(str, sd.idxs(b))) for b in sd.app.state_backend.iter_invocations_in_timerange(start, end, batch)]
                flat_ids = sorted(x for b in ids for x in b)
                hist = [x for b in sd.app.state_backend.iter_history_in_timerange(start, end, batch) for x in b]
                return (flat_ids, max((len(b) for b in ids), default=0) <= batch, sorted((str(sd.idx(h.invocation_id)), h.status_record.status.name) for h in hist))

            self.both("iter_in_timerange", fn)

        @rule(partial=st.sampled_from(["A", "CLI", "zzz", ""]))
        def runner_contexts(self, partial):
            self._t("runner_contexts", partial)
            self.both("get_matching_runner_contexts", lambda sd: sorted(c.runner_id for c in sd.app.state_backend.get_matching_runner_contexts(partial)))
            self.both("get_runner_context", lambda sd: (lambda c: None if c is None else (c.runner_id, c.runner_cls))(sd.app.state_backend.get_runner_context("A")))

        # ------------------------------------------------------------------ trigger store
        @rule(code=st.sampled_from(["e1", "e2"]))
        def trig_register(self, code):
            self._t("trig_register", code)
            self.both("register_task_triggers", lambda sd: sd.app.trigger.register_task_triggers(sd.tasks["other"], TriggerBuilder().on_event(code).with_args_static({"k": 1})), mutation=True)
            self.both("get_triggers_for_condition", lambda sd: sorted(t.trigger_id for c in sd.app.trigger._get_all_conditions() for t in sd.app.trigger.get_triggers_for_condition(c.condition_id)))

        @rule(code=st.sampled_from(["e1", "e2"]), n=st.integers(0, 2))
        def trig_valid(self, code, n):
            self._t("trig_valid", code, n)

            def fn(sd):
                cond = EventCondition(code, None) if False else None
                conds = [c for c in sd.app.trigger._get_all_conditions() if getattr(c, "event_code", None) == code]
                if not conds:
                    return "no-condition"
                ctx = EventContext(event_code=code, payload={"n": n}, event_id=f"ev-{n}")
                sd.app.trigger.record_valid_condition(ValidCondition(conds[0], ctx))
                return "recorded"

            self.both("record_valid_condition", fn, mutation=True)
            self.both("get_valid_conditions", lambda sd: sorted(sd.app.trigger.get_valid_conditions().keys()))

        @rule()
        def trig_clear(self):
            self._t("trig_clear")
            self.both("clear_valid_conditions", lambda sd: sd.app.trigger.clear_valid_conditions([v for k_, v in sorted(sd.app.trigger.get_valid_conditions().items())][:1]), mutation=True)
            self.both("get_valid_conditions", lambda sd: sorted(sd.app.trigger.get_valid_conditions().keys()))

        @rule(run=st.sampled_from(["r1", "r2"]), exp=st.sampled_from([1, 60]), which=st.booleans())
        def trig_claim(self, run, exp, which):
            self._t("trig_claim", run, exp, which)
            if which:
                self.both("claim_trigger_run", lambda sd: bool(sd.app.trigger.claim_trigger_run(run, exp)), mutation=True)
            else:
                self.both("claim_trigger_execution", lambda sd: bool(sd.app.trigger.claim_trigger_execution("trig", run, exp)), mutation=True)

        @rule(off=st.sampled_from([0, 30, 90]), expect=st.sampled_from(["none", "stored", "wrong"]))
        def trig_cron(self, off, expect):
            self._t("trig_cron", off, expect)
            when = clock.now(UTC) + timedelta(seconds=off)

            def fn(sd):
                cond = CronCondition("*/5 * * * *")
                sd.app.trigger.register_condition(cond)
                cur = sd.app.trigger.get_last_cron_execution(cond.condition_id)
                exp_val = None if expect == "none" else (cur if expect == "stored" else datetime(2020, 1, 1, tzinfo=UTC))
                ok = sd.app.trigger.store_last_cron_execution(cond.condition_id, when, exp_val)
                after = sd.app.trigger.get_last_cron_execution(cond.condition_id)
                return (bool(ok), after.isoformat() if after else None)

            self.both("cron_bookkeeping", fn, mutation=True)

        # store-level trigger definitions over a small id universe, against a reference model.  Precondition every real
        # caller respects (register_task_triggers cleans the task first): a live trigger id is only re-registered with the
        # same content; after its task was cleaned (or the store purged) the id may come back with other conditions.
        def _trig_observe(self, why: str) -> None:
            def obs(sd):
                out = []
                for cid in ("vc1", "vc2", "vc3"):
                    out.append((cid, sorted((t.trigger_id, t.task_id.key, tuple(sorted(t.condition_ids))) for t in sd.app.trigger.get_triggers_for_condition(cid))))
                for tid in ("VT1", "VT2", "VT3"):
                    t = sd.app.trigger._get_trigger(tid)
                    out.append((tid, None if t is None else (t.task_id.key, tuple(sorted(t.condition_ids)))))
                return out

            got = self.both(f"trigger_definitions_after_{why}", obs)
            exp = []
            for cid in ("vc1", "vc2", "vc3"):
                exp.append((cid, sorted((tid, tk, cs) for tid, (tk, cs) in self.trig_model.items() if cid in cs)))
            for tid in ("VT1", "VT2", "VT3"):
                exp.append((tid, self.trig_model.get(tid)))
            if got[0] == "ok" and got[1] != exp:
                rep.fail("machine:trigger_definitions:differs-from-model", f"after {why}: stores report {got[1]} but the registered definitions are {exp}; trace tail {self.trace[-6:]}")

        @rule(tid=st.sampled_from(["VT1", "VT2", "VT3"]), conds=st.lists(st.sampled_from(["vc1", "vc2", "vc3"]), min_size=1, max_size=3, unique=True), tk=st.sampled_from(["ta", "tb"]))
        def trig_dto_register(self, tid, conds, tk):
            from pynenc.identifiers.task_id import TaskId
            from pynenc.models.trigger_definition_dto import TriggerDefinitionDTO
            from pynenc.trigger.conditions import CompositeLogic

            task_id = TaskId("verif_trig_mod", tk)
            if tid in self.trig_model:
                key, cs = self.trig_model[tid]
                task_id = TaskId.from_key(key)
                conds = list(cs)
            self._t("trig_dto_register", tid, tuple(conds), task_id.key)
            self.both("register_trigger", lambda sd: sd.app.trigger.register_trigger(TriggerDefinitionDTO(trigger_id=tid, task_id=task_id, condition_ids=list(conds), logic=CompositeLogic.AND, argument_provider_json=None)), mutation=True)
            self.trig_model[tid] = (task_id.key, tuple(sorted(conds)))
            if len({v[0] for v in self.trig_model.values()}) >= 1 and self.trig_cleaned:
                self.nontrivial = True
            self._trig_observe("register")

        @rule(tk=st.sampled_from(["ta", "tb"]))
        def trig_dto_clean(self, tk):
            from pynenc.identifiers.task_id import TaskId

            task_id = TaskId("verif_trig_mod", tk)
            self._t("trig_dto_clean", task_id.key)
            self.both("clean_task_trigger_definitions", lambda sd: sd.app.trigger.clean_task_trigger_definitions(task_id), mutation=True)
            if any(v[0] == task_id.key for v in self.trig_model.values()):
                self.trig_cleaned = True
            self.trig_model = {k: v for k, v in self.trig_model.items() if v[0] != task_id.key}
            self._trig_observe("clean")

        @rule()
        def trig_sources(self):
            self._t("trig_sources")
            self.both("get_conditions_sourced_from_task", lambda sd: sorted(c.condition_id for c in sd.app.trigger.get_conditions_sourced_from_task(sd.tasks["ident"].task_id)))

        # ------------------------------------------------------------------ client data store
        @rule(n=st.integers(0, 2), big=st.booleans())
        def client_data(self, n, big):
            self._t("client_data", n, big)

            def fn(sd):
                v = {"n": n, "pad": "z" * (100 if big else 1)}
                ref = sd.app.client_data_store.serialize(v)
                sd.app.client_data_store._deserialized_cache.clear()
                return (sd.app.client_data_store.is_reference(ref), ref if sd.app.client_data_store.is_reference(ref) else len(ref), repr(sd.app.client_data_store.resolve(ref)))

            self.both("client_data_store", fn, mutation=True)

        # ------------------------------------------------------------------ component purges
        @rule(what=st.sampled_from(["broker", "state_backend", "trigger", "client_data_store"]))
        def purge(self, what):
            self._t("purge", what)
            self.both(f"purge:{what}", lambda sd: getattr(sd.app, what).purge(), mutation=True)
            self.purged.add(what)
            if what == "broker":
                self.queue.clear()
            if what == "trigger":
                self.trig_model.clear()
            if what == "state_backend":
                # the stored invocations are gone: orchestrator and broker are purged with it and the universe starts
                # again (an orchestrator that outlives its state backend is not a state the operations are specified for)
                self.both("purge:orchestrator", lambda sd: sd.app.orchestrator.purge(), mutation=True)
                self.both("purge:broker", lambda sd: sd.app.broker.purge(), mutation=True)
                for sd in self.sides:
                    sd.ids.clear()
                    sd.calls.clear()
                self.model_status.clear()
                self.model_owner.clear()
                self.queue.clear()
                self.purged.discard("state_backend")
            # what a user can still see afterwards must agree
            self.both("after_purge:get_app_info", lambda sd: sd.app.state_backend.get_app_info().app_id == sd.app.app_id)
            self.both("after_purge:valid_conditions", lambda sd: sorted(sd.app.trigger.get_valid_conditions().keys()))
            if self.n():
                def wfd(sd):
                    try:
                        wfi = sd.app.state_backend.get_invocation(sd.ids[0]).workflow
                    except Exception:  # noqa: BLE001
                        wfi = WorkflowIdentity.new_workflow(invocation_id=sd.ids[0], task_id=sd.tasks["other"].task_id)
                    return repr(sd.app.state_backend.get_workflow_data(wfi, "a", "DEFAULT"))

                self.both("after_purge:get_workflow_data", wfd)
                self.both("after_purge:get_runner_context", lambda sd: (lambda c: None if c is None else c.runner_id)(sd.app.state_backend.get_runner_context("A")))

        def teardown(self):
            part.case(key=self.trace, nontrivial=self.nontrivial, classes=[f"len{min(len(self.trace) // 20 * 20, 60)}", "purged" if self.purged else "no_purge"],
                      sample={"trace": [list(map(str, o)) for o in self.trace[:25]]})

    try:
        run_machine(rep, Machine, seed, make_settings(examples, steps), "machine", max_buckets=3)
    finally:
        cinst.uninstall()
    return part.dump()


def run(ctx: Ctx) -> None:
    known = sorted(ctx.known_keys())
    n = ncpu()
    ex = 60 if ctx.quick else 1200
    merge_parts(ctx, pmap(machine_shard, [(ctx.seed * 100 + k, ex, 60, known) for k in range(n)]))
    ctx.assumptions.append("status requests are issued only for registered invocations; unknown-id behaviour is outside the caller contract (see C01)")
    ctx.assumptions.append("results are compared as sorted lists where the contract leaves the order open; pagination is compared exactly (timestamps are unique under the virtual clock, 1 ms per read)")


def replay(case: dict) -> int:
    print("re-run the check with the recorded seed to replay; trace:")
    for op in case["case"]["trace"]:
        print("  ", op)
    return 2
