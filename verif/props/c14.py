"""C14 - process-based runners keep their worker pool at capacity when workers die.

The real _on_start / runner_loop_iteration / _report_child_runner_heartbeats code of MultiThreadRunner,
PersistentProcessRunner and ProcessRunner runs with the operating-system process objects replaced by controllable
stand-ins (multiprocessing.Process / Manager / cpu_count, os.kill in the three runner modules).
Hypothesis state machine: iterate, kill(any subset, any exit code), enqueue(n).
"""

from __future__ import annotations

import itertools
import types
from typing import Any

from verif import apps, tasks, vclock
from verif.core import Ctx, Part, merge_parts, ncpu, pmap
from verif.hyp import Reporter, make_settings, run_machine

LEVEL = "exploration"

RULE = (
    "Hypothesis state machine (<=40 steps) per runner kind (MultiThreadRunner enforce-max on/off, PersistentProcessRunner, ProcessRunner) x pool size 1-4: "
    "iterate (child heartbeat report + real loop iteration), kill(any subset of tracked workers incl. all, exit code 0 / 1 / -9 / -15), enqueue(n invocations); "
    "after any deaths followed by 2 iterations: no dead worker tracked, live tracked workers == documented capacity, heartbeats only ever reported for live workers; "
    "non-trivial = history with >=1 death followed by >=1 iteration; distinct = (runner kind, configuration, operation trace)"
)

DET = vclock.DetUUID()
_pid = itertools.count(5000)
ALL_PROCS: list[Any] = []


class FakeProcess:
    def __init__(self, group: Any = None, target: Any = None, name: Any = None, args: Any = (), kwargs: Any = None, *, daemon: Any = None) -> None:
        self.target, self.args, self.kwargs, self.daemon = target, args, kwargs or {}, daemon
        self.pid: int | None = None
        self._alive = False
        self.exitcode: int | None = None
        self.name = name or "FakeProcess"
        ALL_PROCS.append(self)

    def start(self) -> None:
        self.pid = next(_pid)
        self._alive = True

    def is_alive(self) -> bool:
        return self._alive

    def join(self, timeout: Any = None) -> None:
        return None

    def die(self, code: int) -> None:
        self._alive = False
        self.exitcode = code

    def terminate(self) -> None:
        if self._alive:
            self.die(-15)

    def kill(self) -> None:
        if self._alive:
            self.die(-9)


class FakeEvent:
    def __init__(self) -> None:
        self.f = False

    def set(self) -> None:
        self.f = True

    def is_set(self) -> bool:
        return self.f

    def clear(self) -> None:
        self.f = False


class FakeManager:
    def dict(self, *a: Any, **k: Any) -> dict:
        return dict(*a, **k)

    def Event(self) -> FakeEvent:  # noqa: N802
        return FakeEvent()

    def shutdown(self) -> None:
        return None


def install(cpus: int) -> list[tuple[Any, str, Any]]:
    import pynenc.runner.multi_thread_runner as mtr
    import pynenc.runner.persistent_process_runner as ppr
    import pynenc.runner.process_runner as pr

    saved = []

    def setattr_(mod: Any, name: str, val: Any) -> None:
        saved.append((mod, name, getattr(mod, name)))
        setattr(mod, name, val)

    for mod in (mtr, ppr, pr):
        setattr_(mod, "Process", FakeProcess)
        setattr_(mod, "Manager", FakeManager)
        if hasattr(mod, "cpu_count"):
            setattr_(mod, "cpu_count", lambda: cpus)
    mp_shim = types.SimpleNamespace(get_start_method=lambda allow_none=False: "spawn", set_start_method=lambda *a, **k: None, cpu_count=lambda: cpus)
    setattr_(ppr, "multiprocessing", mp_shim)
    os_shim = types.SimpleNamespace(**{k: getattr(ppr.os, k) for k in dir(ppr.os) if not k.startswith("__")})
    os_shim.cpu_count = lambda: cpus
    os_shim.kill = lambda pid, sig: None
    setattr_(ppr, "os", os_shim)
    os_shim2 = types.SimpleNamespace(**{k: getattr(pr.os, k) for k in dir(pr.os) if not k.startswith("__")})
    os_shim2.kill = lambda pid, sig: None
    setattr_(pr, "os", os_shim2)
    # worker ids are uuid4 values: make them a counter so that "the k-th tracked worker" is the same worker on a replay
    import uuid as _uuid

    DET.reset()
    setattr_(_uuid, "uuid4", DET.uuid4)
    return saved


RUNNERS = ["MultiThreadRunner:on", "MultiThreadRunner:off", "PersistentProcessRunner", "ProcessRunner"]


def machine_shard(rkind: str, seed: int, examples: int, known: list[str]) -> dict:
    from hypothesis import strategies as st
    from hypothesis.stateful import RuleBasedStateMachine, initialize, precondition, rule
    from pynenc import context

    part = Part("machine", RULE)
    rep = Reporter(part, known)
    clock = vclock.VClock(tick_us=0)
    cinst = vclock.install(clock)
    n_m = [0]

    class Machine(RuleBasedStateMachine):
        def __init__(self):
            super().__init__()
            self.runner = None
            self.trace: list[Any] = []
            self.flags: set[str] = set()
            self.since_death = None  # iterations since the last death
            self.dead_ids: set[str] = set()
            self.nontrivial = False
            self.saved = None

        def _t(self, *op):
            self.trace.append(op)
            rep.holder["case"] = {"runner": rkind, "size": getattr(self, "size", None), "trace": [list(map(str, o)) for o in self.trace]}

        @initialize(size=st.integers(1, 4), min_slots=st.sampled_from([1, 1, 2, 4]))
        def start(self, size, min_slots):
            from pynenc.runner.multi_thread_runner import MultiThreadRunner
            from pynenc.runner.persistent_process_runner import PersistentProcessRunner
            from pynenc.runner.process_runner import ProcessRunner

            n_m[0] += 1
            self.size = size
            self.saved = install(size)
            ALL_PROCS.clear()
            name, _, enf = rkind.partition(":")
            conf: dict[str, Any] = dict(runner_loop_sleep_time_sec=0.01)
            if name == "MultiThreadRunner":
                conf.update(max_processes=size, min_processes=1, enforce_max_processes=(enf == "on"))
                cls = MultiThreadRunner
            elif name == "PersistentProcessRunner":
                # the pool size resolved at start is max(min_parallel_slots, num_processes)
                conf.update(num_processes=size, min_parallel_slots=min_slots)
                self.size = size = max(size, min_slots)
                cls = PersistentProcessRunner
            else:
                cls = ProcessRunner
            self.app = apps.make_app("sqlite", **conf)
            self.task = self.app.task(tasks.ident)
            context.set_runner_context(self.app.app_id, apps.rctx("CLIENT"))
            self.runner = cls(self.app, runner_context=apps.rctx("PARENT", cls.__name__))
            self.hb_bad: list[str] = []
            orch = self.app.orchestrator
            orig = orch.register_runner_heartbeats

            def hb(runner_ids, can_run_atomic_service=False):
                tracked = self.runner.child_runner_ids
                for rid in runner_ids:
                    if rid in tracked:
                        info = tracked[rid]
                        proc = getattr(info, "process", info)
                        if not proc.is_alive():
                            self.hb_bad.append(rid)
                return orig(runner_ids, can_run_atomic_service)

            orch.register_runner_heartbeats = hb  # type: ignore[method-assign]
            self.runner.running = True
            self.runner._on_start()
            self._t("start", size)

        def _procs(self) -> dict[str, Any]:
            return {rid: getattr(info, "process", info) for rid, info in self.runner.child_runner_ids.items()}

        def _capacity(self) -> tuple[int, int] | None:
            """-> (min live, max live) the documented capacity allows right now."""
            name, _, enf = rkind.partition(":")
            queued = self.app.broker.count_invocations()
            if name == "PersistentProcessRunner":
                return (self.size, self.size)
            if name == "MultiThreadRunner":
                if enf == "on":
                    return (self.size, self.size)
                return (min(queued, self.size), self.size)
            return None  # ProcessRunner: judged by slots, see iterate

        @precondition(lambda self: self.runner is not None)
        @rule()
        def iterate(self):
            queued_before = self.app.broker.count_invocations()
            live_before = sum(1 for p in self._procs().values() if p.is_alive())
            self._t("iterate")
            self.runner._report_child_runner_heartbeats()
            self.runner.runner_loop_iteration()
            if self.hb_bad:
                bad, self.hb_bad = self.hb_bad, []
                rep.fail(f"machine:{rkind}:heartbeat-for-dead-worker", f"register_runner_heartbeats was called with dead worker(s) {bad[:3]}")
            if self.since_death is not None:
                self.since_death += 1
                self.nontrivial = True
            procs = self._procs()
            reused = [rid for rid, p in procs.items() if rid in self.dead_ids and p.is_alive()]
            if reused:
                # heartbeats for that id would be reported on behalf of the dead worker: its unfinished invocations never become recoverable
                rep.fail(f"machine:{rkind}:dead-worker-id-reused", f"a replacement worker is tracked under the runner id of a dead worker ({reused[0][:8]})")
            dead_tracked = [rid for rid, p in procs.items() if not p.is_alive()]
            live = sum(1 for p in procs.values() if p.is_alive())
            settled = self.since_death is None or self.since_death >= 2
            if settled:
                if dead_tracked:
                    rep.fail(f"machine:{rkind}:dead-worker-still-tracked", f"{len(dead_tracked)} dead worker(s) still tracked {(self.since_death or 0)} iterations after the deaths; live={live} size={self.size}")
                cap = self._capacity()
                if cap is not None:
                    if not (cap[0] <= live <= cap[1]):
                        rep.fail(f"machine:{rkind}:pool-below-capacity" if live < cap[0] else f"machine:{rkind}:pool-above-capacity",
                                 f"{live} live tracked workers, documented capacity {cap} (size={self.size}, queued={self.app.broker.count_invocations()}); trace tail {self.trace[-6:]}")
                else:
                    # ProcessRunner: every free slot takes one queued invocation
                    want = min(self.size, live_before + queued_before)
                    if live != want:
                        rep.fail(f"machine:{rkind}:slots-not-refilled", f"{live} live workers after the iteration, expected {want} (size={self.size}, live before={live_before}, queued before={queued_before})")

        @precondition(lambda self: self.runner is not None and self._procs())
        @rule(mask=st.integers(1, 15), code=st.sampled_from([0, 1, -9, -15]))
        def kill(self, mask, code):
            procs = sorted(self._procs().items())
            victims = [p for i, (rid, p) in enumerate(procs) if mask >> (i % 4) & 1 and p.is_alive()]
            if not victims:
                return
            for p in victims:
                p.die(code)
            self.dead_ids.update(rid for rid, p in procs if p in victims)
            self.since_death = 0
            self.flags.add(f"exit{code}")
            if len(victims) == len(procs):
                self.flags.add("all_killed")
            self._t("kill", len(victims), code)

        @precondition(lambda self: self.runner is not None)
        @rule(n=st.integers(1, 5))
        def enqueue(self, n):
            for i in range(n):
                self.task(f"{n_m[0]}-{len(self.trace)}-{i}")
            self.flags.add("enqueued")
            self._t("enqueue", n)

        @precondition(lambda self: self.runner is not None and rkind == "ProcessRunner" and self.runner.child_runner_ids)
        @rule(k=st.integers(0, 7))
        def requeue_held(self, k):
            """An invocation held by a live worker is released and queued again (retry / reroute by its worker):
            the runner may pick it up a second time while the first worker is still tracked."""
            from pynenc.invocation.status import InvocationStatus as S

            items = sorted(self.runner.child_runner_ids.items())
            rid, info = items[k % len(items)]
            if not info.process.is_alive():
                return
            try:
                self.app.orchestrator.set_invocation_status(info.invocation_id, S.REROUTED, apps.rctx(rid))
                self.app.broker.route_invocation(info.invocation_id)
            except Exception:  # noqa: BLE001 - not in a status its worker can release
                return
            self.flags.add("requeued_held")
            self._t("requeue_held", str(info.invocation_id)[:8])

        def teardown(self):
            if self.saved:
                for mod, name, old in reversed(self.saved):
                    setattr(mod, name, old)
            if self.runner is None:
                return
            self.app.orchestrator.__dict__.pop("register_runner_heartbeats", None)
            part.case(key=(rkind, self.size, self.trace), nontrivial=self.nontrivial, classes=[f"runner_{rkind}", f"size{self.size}", *sorted(self.flags)],
                      sample={"runner": rkind, "size": self.size, "trace": [list(map(str, o)) for o in self.trace[:20]]})

    try:
        run_machine(rep, Machine, seed, make_settings(examples, 40), f"machine:{rkind}", max_buckets=4)
    finally:
        cinst.uninstall()
    return part.dump()


def run(ctx: Ctx) -> None:
    known = sorted(ctx.known_keys())
    ex = 25 if ctx.quick else 500
    jobs = []
    for i, rk in enumerate(RUNNERS):
        for k in range(4):
            jobs.append((rk, ctx.seed * 100 + i * 10 + k, ex, known))
    merge_parts(ctx, pmap(machine_shard, jobs))
    ctx.assumptions.append("multiprocessing.Process / Manager / cpu_count and os.kill inside the three runner modules are replaced by controllable stand-ins; worker bodies never run (a live stand-in keeps its slot until killed)")
    ctx.assumptions.append("capacity: PersistentProcessRunner num_processes; MultiThreadRunner max_processes with enforce_max_processes, otherwise between min(queued, max_processes) and max_processes; ProcessRunner: every free slot takes one queued invocation")


def replay(case: dict) -> int:
    print("re-run the check with the recorded seed to replay:", case["case"])
    return 2
