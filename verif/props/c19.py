"""C19 - sync development mode and distributed execution give the same outcome.

Generated task programs are executed (1) inline with dev_mode_force_sync_tasks, (2) on the in-memory stack and
(3) on the SQLite stack with the real ThreadRunner loop as scheduler actors in virtual time.  Oracle: the three
outcomes (value, or exception type + args) and the body-execution counts per program node are equal, and equal to
the denotation computed by a small reference interpreter of the retry rules.
"""

from __future__ import annotations

from typing import Any

from verif import apps, runner_harness as RH, sched, tasks
from verif.core import Ctx, Part, merge_parts, ncpu, pmap
from verif.gen import types as T
from verif.gen import values as V
from verif.hyp import Reporter, make_settings, run_given

LEVEL = "exploration"

RULE = (
    "Hypothesis task programs (pure returns, scripted raises - RetryError / a custom retriable / ValueError / a non-retriable custom error - on chosen "
    "attempts or always, nested .result calls, parallelize groups, parallelize with common_args and heterogeneous per-call dicts; plain and direct_task flavours) x max_retries 0..3 x retry_for subsets; executed in sync "
    "mode, on Mem + ThreadRunner and on SQLite + ThreadRunner (scheduler actors, round-robin, virtual time); non-trivial = program with a nested call and a "
    "raise, or a group of >= 2; distinct = (program, flavour, max_retries, retry_for)"
)

RETRY_FOR = {"none": (), "retriable": ("retriable",), "value": ("value",), "both": ("retriable", "value")}


def exc_class(kind: str):
    from pynenc.exceptions import RetryError

    return {"retry": RetryError, "retriable": T.RetriableError, "value": ValueError, "app": T.AppError}[kind]


class Sim:
    """Reference interpreter of the documented retry rules (harness side, no pynenc code)."""

    def __init__(self, max_retries: int, retry_for: tuple[str, ...]) -> None:
        self.max_retries = max_retries
        self.retriable = {"retry", *retry_for}
        self.runs: dict[str, int] = {}

    def call(self, node: Any, path: str) -> Any:
        """One invocation of the interpreter task: -> ('ok', value) | ('err', kind, message)"""
        retries = 0
        while True:
            self.runs[path] = self.runs.get(path, 0) + 1
            out = self.body(node, path, self.runs[path])
            if out[0] == "ok" or out[0] == "err-any":
                return out  # err-any: which member of a group fails first is completion-dependent; not compared
            if out[1] in self.retriable and retries < self.max_retries:
                retries += 1
                continue
            return out

    def body(self, node: Any, path: str, attempt: int) -> Any:
        kind = node[0]
        if kind == "ret":
            return ("ok", node[1])
        if kind == "raise":
            if attempt in node[2] or not node[2]:
                return ("err", node[1], f"{path}#{attempt}")
            return ("ok", 100 + attempt)
        if kind == "none":
            return ("ok", None)
        if kind == "twice":
            r = self.call(node[2], f"{path}.0")
            if r[0] != "ok":
                return r
            return ("ok", node[1] + 2 * (r[1] or 0))
        if kind == "par":
            tot = node[1]
            for d in node[3]:
                m = {"a": 0, "b": 10, "c": 100, **node[2], **d}
                tot += m["a"] + m["b"] + m["c"]
            return ("ok", tot)
        total = node[1]
        if kind == "sum":
            for i, ch in enumerate(node[2]):
                r = self.call(ch, f"{path}.{i}")
                if r[0] != "ok":
                    return r
                total += r[1] or 0
            return ("ok", total)
        if kind == "group":
            res = [self.call(ch, f"{path}.{i}") for i, ch in enumerate(node[2])]
            for r in res:
                if r[0] != "ok":
                    return ("err-any", [x for x in res if x[0] != "ok"])
            return ("ok", total + sum((r[1] or 0) for r in res))
        raise ValueError(node)


def prog_strategy(flavour: str):
    from hypothesis import strategies as st

    attempts = st.sampled_from([[], [1], [1, 2], [2], [1, 2, 3]])
    argd = st.dictionaries(st.sampled_from(["a", "b", "c"]), st.integers(1, 9), max_size=3)
    leaves = [
        st.builds(lambda v: ["ret", v], st.integers(0, 9)),
        st.just(["none"]),
        st.builds(lambda k, a: ["raise", k, a], st.sampled_from(["retry", "retriable", "value", "app"]), attempts),
    ]
    if flavour != "direct":
        # parallelize(..., common_args=...) with heterogeneous per-call dicts (at least one common argument: the documented use)
        leaves.append(st.builds(lambda b, common, calls: ["par", b, common, calls], st.integers(0, 9), st.dictionaries(st.sampled_from(["a", "b", "c"]), st.integers(1, 9), min_size=1, max_size=2), st.lists(argd, min_size=1, max_size=3)))
    leaf = st.one_of(*leaves)
    kinds = ["sum"] if flavour == "direct" else ["sum", "group"]
    def extend(ch):
        return st.one_of(
            st.builds(lambda kind, base, kids: [kind, base, kids], st.sampled_from(kinds), st.integers(0, 9), st.lists(ch, min_size=1, max_size=3)),
            st.builds(lambda base, kid: ["twice", base, kid], st.integers(0, 9), ch),
        )

    return st.recursive(leaf, extend, max_leaves=4)


def has(node: Any, kind: str) -> bool:
    if node[0] == kind:
        return True
    if node[0] == "twice":
        return has(node[2], kind)
    return node[0] in ("sum", "group") and any(has(c, kind) for c in node[2])


def group_size(node: Any) -> int:
    if node[0] == "par":
        return len(node[3])
    if node[0] == "group":
        return max(len(node[2]), max((group_size(c) for c in node[2]), default=0))
    if node[0] == "sum":
        return max((group_size(c) for c in node[2]), default=0)
    if node[0] == "twice":
        return group_size(node[2])
    return 0


def raise_under_sum_only(node: Any) -> bool:
    """True when no raise node sits below a group (the group's failure order is completion-dependent)."""
    if node[0] == "group":
        return not any(has(c, "raise") for c in node[2])
    if node[0] == "sum":
        return all(raise_under_sum_only(c) for c in node[2])
    if node[0] == "twice":
        return raise_under_sum_only(node[2])
    return True


def retriable_raise_below_group(node: Any, retriable: set) -> bool:
    def any_retriable(n: Any) -> bool:
        if n[0] == "raise":
            return n[1] in retriable
        if n[0] in ("sum", "group"):
            return any(any_retriable(c) for c in n[2])
        if n[0] == "twice":
            return any_retriable(n[2])
        return False

    if node[0] == "group":
        return any(any_retriable(c) for c in node[2])
    if node[0] == "sum":
        return any(retriable_raise_below_group(c, retriable) for c in node[2])
    if node[0] == "twice":
        return retriable_raise_below_group(node[2], retriable)
    return False


def normalise(outcome: Any) -> Any:
    if outcome[0] == "ok":
        return ("ok", outcome[1])
    exc = outcome[1]
    return ("err", type(exc).__name__, [str(a) if not isinstance(a, (int, float, type(None), bool)) else a for a in exc.args])


BATCH = {"n": 100}  # parallel_batch_size used by register(); drawn per example


def register(app: Any, flavour: str, max_retries: int, retry_for: tuple[str, ...]) -> Any:
    opts = dict(max_retries=max_retries, parallel_batch_size=BATCH["n"])
    classes = tuple(exc_class(k) for k in retry_for)
    if classes:
        opts["retry_for"] = classes
    tasks.HOOKS["app"] = app
    if flavour == "direct":
        wrapper = app.direct_task(tasks.dprog, **opts)
        tasks.HOOKS["dprog_call"] = wrapper
        app.task(tasks.prog, **opts)
        return wrapper
    app.task(tasks.opt3, parallel_batch_size=BATCH["n"])
    return app.task(tasks.prog, **opts)


def run_sync(node: Any, flavour: str, max_retries: int, retry_for: tuple[str, ...]) -> tuple[Any, dict]:
    from pynenc import context

    app = apps.make_app("mem", dev_mode_force_sync_tasks=True)
    tasks.reset_log()
    tasks.RUNS.clear()
    t = register(app, flavour, max_retries, retry_for)
    context.set_current_app(app)
    try:
        if flavour == "direct":
            val = t(node, "r")
        else:
            val = t(node, "r").result
        out = ("ok", val)
    except Exception as exc:  # noqa: BLE001 - the outcome
        out = ("err", exc)
    return out, dict(tasks.RUNS)


def run_dist(kind: str, node: Any, flavour: str, max_retries: int, retry_for: tuple[str, ...], clock: Any, det: Any, shared: dict, policy: Any = None, extra_trace: tuple[str, ...] = (), max_steps: int = 400_000, stall: tuple[int, int] = (4000, 8)) -> tuple[Any, dict, Any]:
    from pynenc import context

    det.reset()
    clock.us = 1_700_000_000_000_000
    if kind == "sqlite":
        app = shared.get("app")
        if app is None:
            app = shared["app"] = apps.make_app("sqlite", **RH.RUNNER_CONF, max_threads=2, min_threads=2)
        else:
            app.purge()
            app.state_backend._runner_context_cache.clear()
            app.state_backend.invocation_threads.clear()
            app._tasks.clear()
    else:
        app = apps.make_app("mem", **RH.RUNNER_CONF, max_threads=2, min_threads=2)
    tasks.reset_log()
    tasks.RUNS.clear()
    t = register(app, flavour, max_retries, retry_for)
    context.set_runner_context(app.app_id, apps.rctx("CLIENT"))
    root_task = t.__pynenc_task__ if flavour == "direct" else t
    root = root_task(node, "r")
    rid = root.invocation_id

    def stop(env):
        # the whole program has ended: the root and every invocation it created are final (a failed group member makes
        # the root final while its siblings still run; stopping the runner then would strand them - C11's business)
        if not app.orchestrator.get_invocation_status(rid).is_final():
            return False
        return all(app.orchestrator.get_invocation_status(i).is_final() for i in app.orchestrator.get_invocation_ids_paginated(limit=200))

    def watch():
        return list(app.orchestrator.get_invocation_ids_paginated(limit=60))

    env = RH.run_on_thread_runner(kind, app, clock, policy or sched.RoundRobin(3), stop, slots=2, watch_ids=watch, max_steps=max_steps, extra_trace=extra_trace, stall=stall)
    if env.failure is not None or getattr(env, "deadline", False):
        return None, dict(tasks.RUNS), env
    st_ = app.orchestrator.get_invocation_status(rid).name
    app.client_data_store._deserialized_cache.clear()
    if st_ == "SUCCESS":
        out = ("ok", app.state_backend.get_result(rid))
    elif st_ == "FAILED":
        out = ("err", app.state_backend.get_exception(rid))
    else:
        out = ("status", st_)
    return out, dict(tasks.RUNS), env


def shard(seed: int, examples: int, flavour: str, known: list[str]) -> dict:
    import hypothesis
    from hypothesis import given, strategies as st

    part = Part("programs", RULE)
    rep = Reporter(part, known)
    envs = {}
    # both stacks share one process: install the stand-ins once (SQLite wrappers are no-ops outside actors)
    clock, cinst, inst, det = RH.install_all("sqlite")
    shared: dict[str, dict] = {"mem": {}, "sqlite": {}}

    @hypothesis.seed(seed)
    @make_settings(examples)
    @given(node=prog_strategy(flavour), max_retries=st.integers(0, 3), rf=st.sampled_from(sorted(RETRY_FOR)), batch=st.sampled_from([100, 100, 2]))
    def prop(node, max_retries, rf, batch):
        retry_for = RETRY_FOR[rf]
        BATCH["n"] = batch
        rep.holder["case"] = {"program": node, "flavour": flavour, "max_retries": max_retries, "retry_for": rf, "parallel_batch_size": batch}
        sim = Sim(max_retries, retry_for)
        exp = sim.call(node, "r")
        s_out, s_runs = run_sync(node, flavour, max_retries, retry_for)
        outs = {"sync": (s_out, s_runs)}
        for kind in ("mem", "sqlite"):
            d_out, d_runs, env = run_dist(kind, node, flavour, max_retries, retry_for, clock, det, shared[kind])
            if d_out is None:
                if env.failure is not None and not isinstance(env.failure, sched.Budget):
                    rep.fail(f"programs:{kind}:no-progress", f"{env.failure}")
                part.notes.append(f"inconclusive distributed run ({kind})")
                return
            outs[kind] = (d_out, d_runs)
        nt = (has(node, "sum") or has(node, "group")) and has(node, "raise") or group_size(node) >= 2
        part.case(key=(node, flavour, max_retries, rf, batch), nontrivial=nt, classes=[f"flavour_{flavour}", f"retries{max_retries}", f"retry_for_{rf}", "has_raise" if has(node, "raise") else "pure",
                  "nested" if node[0] not in ("ret", "raise", "par") else "leaf", "group" if has(node, "group") else "no_group", "common_args" if has(node, "par") else "no_common_args", f"batch{batch}", "reads_twice" if has(node, "twice") else "reads_once"],
                  sample={**rep.holder["case"], "expected": str(exp)[:80], "runs": s_runs})
        deterministic = raise_under_sum_only(node)
        # 1. denotation (only where the program's outcome does not depend on completion order inside a group)
        if deterministic:
            for mode, (o, runs) in outs.items():
                if exp[0] == "ok":
                    rep.check(o[0] == "ok" and V.same(o[1], exp[1]), f"programs:{mode}:value-vs-denotation", f"{mode}: outcome {normalise(o) if o[0] != 'status' else o} but the program denotes {exp}")
                else:
                    ok = o[0] == "err" and type(o[1]) is exc_class(exp[1]) and (exp[2] in [str(a) for a in o[1].args])
                    rep.check(ok, f"programs:{mode}:error-vs-denotation", f"{mode}: outcome {normalise(o) if o[0] != 'status' else o} but the program denotes a {exp[1]} error {exp[2]!r}")
                rep.check(runs == sim.runs, f"programs:{mode}:runs-vs-denotation", f"{mode}: body executions {runs} but the retry rules give {sim.runs} (max_retries={max_retries}, retry_for={rf})")
        # 2. the three modes agree with each other
        base = outs["sync"]
        for mode in ("mem", "sqlite"):
            o, runs = outs[mode]
            if deterministic:
                rep.check(normalise(o) == normalise(base[0]) if o[0] != "status" else False, f"programs:{mode}:outcome-differs-from-sync", f"sync {normalise(base[0])} vs {mode} {normalise(o) if o[0] != 'status' else o}")
                rep.check(runs == base[1], f"programs:{mode}:runs-differ-from-sync", f"sync {base[1]} vs {mode} {runs}")
            elif max_retries == 0 or not retriable_raise_below_group(node, {"retry", *retry_for}):
                rep.check(o[0] == base[0][0], f"programs:{mode}:outcome-class-differs-from-sync", f"sync {base[0][0]} vs {mode} {o[0]}")
            else:
                # a retriable failure below a group re-executes an ancestor; sync mode evaluates group members lazily (later members
                # are not run once one failed), the distributed group runs them all: with attempt-scripted leaves even the outcome
                # class then depends on that order, which the statement does not fix
                part.event("group_with_retriable_failure_not_compared")

    try:
        run_given(rep, prop, "programs", max_buckets=4)
    finally:
        inst.uninstall()
        cinst.uninstall()
    return part.dump()


RULE_R = (
    "retry programs (a leaf that always / on attempts 1..k raises RetryError or a retriable error, alone or under a sum) x max_retries 1..2, executed on Mem and SQLite "
    "with the real ThreadRunner (2 slots) under PCT schedules (random priorities, 2 priority change points; yields at source lines of the retry path and "
    "the Mem components, or at SQL statements); oracle: outcome and body-execution count per node equal the retry-rule denotation (= sync mode); "
    "non-trivial = a retry happened and another actor ran between the failing attempt's first and last backend write; distinct = (backend, program, max_retries, PCT seed)"
)

RETRY_PROGRAMS = [
    (["raise", "retry", []], 1),
    (["raise", "retry", []], 2),
    (["raise", "retry", [1]], 1),
    (["raise", "retriable", [1, 2]], 2),
    (["sum", 1, [["raise", "retry", []]]], 1),
    (["sum", 1, [["raise", "retry", [1]], ["ret", 2]]], 1),
]
RETRY_TRACE = ("pynenc/orchestrator/base_orchestrator.py", "pynenc/orchestrator/mem_orchestrator.py", "pynenc/broker/mem_broker.py")


def retry_sched_shard(kind: str, seed: int, runs: int, known: list[str]) -> dict:
    import random

    part = Part("retry-schedules", RULE_R)
    clock, cinst, inst, det = RH.install_all("sqlite")
    shared: dict = {}
    est: dict[int, int] = {}
    try:
        for i in range(runs):
            pi = i % len(RETRY_PROGRAMS)
            node, mr = RETRY_PROGRAMS[pi]
            rf = ("retriable",)
            sim = Sim(mr, rf)
            exp = sim.call(node, "r")
            if pi not in est:
                o0, _, env0 = run_dist(kind, node, "plain", mr, rf, clock, det, shared, extra_trace=RETRY_TRACE if kind == "mem" else (), max_steps=60_000, stall=(6000, 3))
                est[pi] = min(4000, max(50, env0.steps)) if o0 is not None else 0
            if not est[pi]:
                part.event("baseline_did_not_end")  # the round-robin run of this program did not end within its budget: the programs part judges that
                continue
            if False:
                pass
            pseed = seed * 1_000_003 + i
            policy = sched.PCT(random.Random(pseed), 2, est[pi])
            o, runs_seen, env = run_dist(kind, node, "plain", mr, rf, clock, det, shared, policy=policy, extra_trace=RETRY_TRACE if kind == "mem" else (), max_steps=40 * est[pi], stall=(10 * est[pi], 3))
            case = {"backend": kind, "program": node, "max_retries": mr, "pct_seed": pseed, "est_steps": est[pi]}
            if o is None:
                part.event("inconclusive_schedule")
                if len(part.notes) < 3:
                    part.notes.append(f"inconclusive schedule ({kind}, program {pi}): {str(env.failure)[:100]}")
                continue
            retried = any(v > 1 for v in runs_seen.values())
            part.case(key=(kind, pi, pseed), nontrivial=retried, classes=[f"backend_{kind}", f"program_{pi}", "retried" if retried else "no_retry"], sample={**case, "runs": runs_seen})
            problems = []
            if runs_seen != sim.runs:
                problems.append(("retry-schedules:runs-vs-denotation", f"[{kind}] body executions {runs_seen} but the retry rules (and sync mode) give {sim.runs} for {node} max_retries={mr}"))
            if exp[0] == "ok" and not (o[0] == "ok" and o[1] == exp[1]):
                problems.append(("retry-schedules:value-vs-denotation", f"[{kind}] outcome {normalise(o) if o[0] != 'status' else o} but the program denotes {exp}"))
            if exp[0] == "err" and not (o[0] == "err" and type(o[1]) is exc_class(exp[1])):
                problems.append(("retry-schedules:error-vs-denotation", f"[{kind}] outcome {normalise(o) if o[0] != 'status' else o} but the program denotes a {exp[1]} error"))
            for key, msg in problems:
                if key in known:
                    part.known(key)
                else:
                    part.violation(key, msg, case)
    finally:
        inst.uninstall()
        cinst.uninstall()
    return part.dump()


def run(ctx: Ctx) -> None:
    known = sorted(ctx.known_keys())
    n = ncpu()
    ex = 20 if ctx.quick else 400
    jobs = [(ctx.seed * 100 + k, ex, "plain" if k % 4 else "direct", known) for k in range(n)]
    merge_parts(ctx, pmap(shard, jobs))
    per = 36 if ctx.quick else 600
    if ctx.quick and any(p.violations for p in ctx.parts.values()):
        ctx.assumptions.append("retry-schedule search skipped in this run: the programs part already reported a violation")
        return
    merge_parts(ctx, pmap(retry_sched_shard, [(kind, ctx.seed * 100 + k, per, known) for k in range(n // 2) for kind in ("mem", "sqlite")]))
    ctx.assumptions.append("group results are compared as sums (order-insensitive); programs with a raise below a group are compared by outcome class only (which failing member surfaces first depends on completion order)")
    ctx.assumptions.append("body executions are counted per program node by the interpreter task (process-local table)")


def replay(case: dict) -> int:
    c = case["case"]
    if "pct_seed" in c:
        import random

        clock, cinst, inst, det = RH.install_all("sqlite")
        try:
            sim = Sim(c["max_retries"], ("retriable",))
            sim.call(c["program"], "r")
            o, runs_seen, env = run_dist(c["backend"], c["program"], "plain", c["max_retries"], ("retriable",), clock, det, {}, policy=sched.PCT(random.Random(c["pct_seed"]), 2, c["est_steps"]),
                                        extra_trace=RETRY_TRACE if c["backend"] == "mem" else ())
            print("runs", runs_seen, "denotation", sim.runs)
            return 1 if runs_seen != sim.runs else 0
        finally:
            inst.uninstall()
            cinst.uninstall()
    flavour, mr, rf = c["flavour"], c["max_retries"], RETRY_FOR[c["retry_for"]]
    BATCH["n"] = c.get("parallel_batch_size", 100)
    sim = Sim(mr, rf)
    print("denotation:", sim.call(c["program"], "r"), sim.runs)
    s_out, s_runs = run_sync(c["program"], flavour, mr, rf)
    print("sync:", normalise(s_out), s_runs)
    clock, cinst, inst, det = RH.install_all("sqlite")
    bad = 0
    try:
        for kind in ("mem", "sqlite"):
            o, runs, env = run_dist(kind, c["program"], flavour, mr, rf, clock, det, {})
            print(kind, normalise(o) if o and o[0] != "status" else o, runs, env.failure)
            if o is None or o[0] == "status" or normalise(o) != normalise(s_out) or runs != s_runs:
                bad = 1
    finally:
        inst.uninstall()
        cinst.uninstall()
    return bad
