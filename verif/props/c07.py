"""C07 - registration concurrency collapses duplicate submissions onto one invocation.

Hypothesis state machine, sequential, Mem and SQLite in lock-step with a model map key -> REGISTERED
invocation.  Configurations: mode (DISABLED/TASK/ARGUMENTS/KEYS) x key-argument subset x raise option.
"""

from __future__ import annotations

from typing import Any

from verif import apps, tasks
from verif.core import Ctx, Part, merge_parts, ncpu, pmap
from verif.hyp import Reporter, make_settings, run_machine

LEVEL = "exploration"

RULE = (
    "Hypothesis state machine (<=40 steps) per configuration (registration mode x key arguments x on_diff_non_key_args_raise), Mem + SQLite in "
    "lock-step: submit(k,v,w drawn with repeats; positional / keyword / defaults-omitted spelling), claim, complete, fail; model: key -> "
    "REGISTERED invocation; non-trivial = history where a key is re-submitted both while its invocation is REGISTERED and after it left "
    "REGISTERED; distinct = (configuration, operation trace)"
)

CONFIGS = [
    ("DISABLED", (), False),
    ("TASK", (), False),
    ("ARGUMENTS", (), False),
    ("KEYS", ("k",), False),
    ("KEYS", ("k",), True),
    ("KEYS", ("k", "v"), False),
    ("KEYS", ("k", "v"), True),
    # key arguments declared (e.g. for the running concurrency) while registration concurrency compares ALL arguments
    ("ARGUMENTS", ("k",), False),
    ("TASK", ("k",), False),
]


def key_of(mode: str, keys: tuple, a: tuple) -> Any:
    if mode == "TASK":
        return "task"
    if mode == "ARGUMENTS":
        return a
    d = dict(zip(("k", "v", "w"), a))
    return tuple(d[x] for x in keys)


def spell(task: Any, a: tuple, how: int) -> Any:
    k, v, w = a
    if how == 0:
        return task(k, v, w)
    if how == 1:
        return task(k=k, v=v, w=w)
    if how == 2:
        return task(w=w, v=v, k=k)
    if how == 3:
        # omit trailing arguments that equal the defaults (0)
        if w == 0 and v == 0:
            return task(k)
        if w == 0:
            return task(k, v)
        return task(k, v, w)
    return task(k, v=v, w=w)


def machine_shard(cfg_idx: int, seed: int, examples: int, steps: int, known: list[str]) -> dict:
    from hypothesis import strategies as st
    from hypothesis.stateful import RuleBasedStateMachine, precondition, rule
    from pynenc import context
    from pynenc.conf.config_task import ConcurrencyControlType as CC
    from pynenc.exceptions import InvocationConcurrencyWithDifferentArgumentsError
    from pynenc.invocation.status import InvocationStatus as S

    mode, keys, raise_opt = CONFIGS[cfg_idx]
    part = Part("machine", RULE)
    rep = Reporter(part, known)
    shared: dict[str, Any] = {}
    tag = f"{mode}{''.join(keys)}{'R' if raise_opt else ''}"

    def get_apps():
        if "apps" not in shared or shared["n"] > 60:
            shared["apps"] = {}
            for kind in ("mem", "sqlite"):
                # min_size_to_cache=8: string arguments are externalised (reference keys), ints stay inline
                app = apps.make_app(kind, min_size_to_cache=8, auto_final_invocation_purge_hours=0.0)
                opts: dict[str, Any] = dict(registration_concurrency=CC[mode], on_diff_non_key_args_raise=raise_opt)
                if keys:
                    opts["key_arguments"] = keys
                shared["apps"][kind] = (app, app.task(tasks.keyed, **opts))
            shared["n"] = 0
        shared["n"] += 1
        return shared["apps"]

    class Machine(RuleBasedStateMachine):
        def __init__(self):
            super().__init__()
            self.apps = get_apps()
            for kind, (app, _) in self.apps.items():
                app.purge()
                context.set_runner_context(app.app_id, apps.rctx("CLIENT"))
            self.invs: list[dict[str, Any]] = []  # model invocations: args, status, ids per backend
            self.trace: list[Any] = []
            self.resub_while_registered: set[Any] = set()
            self.resub_after_left: set[Any] = set()
            self.left_keys: set[Any] = set()
            self.flags: set[str] = set()

        def _t(self, *op):
            self.trace.append(op)
            rep.holder["case"] = {"config": [mode, list(keys), raise_opt], "trace": [list(map(str, o)) for o in self.trace]}

        def _counts(self, kind):
            app = self.apps[kind][0]
            return (app.orchestrator.count_invocations(), app.broker.count_invocations())

        @rule(k=st.sampled_from([1, 2, "key-aaaaaaaaaaaa", "key-bbbbbbbbbbbb"]), v=st.sampled_from([0, 1, "val-cccccccccccc"]), w=st.integers(0, 1), how=st.integers(0, 4))
        def submit(self, k, v, w, how):
            a = (k, v, w)
            self._t("submit", a, how)
            key = key_of(mode, keys, a) if mode != "DISABLED" else None
            existing = None
            if mode != "DISABLED":
                for j, m in enumerate(self.invs):
                    if m["status"] == "REGISTERED" and key_of(mode, keys, m["args"]) == key:
                        existing = j
            expect_error = existing is not None and mode == "KEYS" and raise_opt and self.invs[existing]["args"] != a
            if mode != "DISABLED":
                if existing is not None:
                    self.resub_while_registered.add(key)
                elif key in self.left_keys:
                    self.resub_after_left.add(key)
            new_ids = {}
            for kind, (app, task) in self.apps.items():
                before = self._counts(kind)
                err = None
                inv = None
                try:
                    inv = spell(task, a, how)
                except InvocationConcurrencyWithDifferentArgumentsError as exc:
                    err = exc
                after = self._counts(kind)
                if expect_error:
                    self.flags.add("diff_args_rejected")
                    if err is None:
                        rep.fail(f"machine:{kind}:{tag}:diff-args-not-rejected", f"submission {a} with key {key} equal to REGISTERED {self.invs[existing]['args']} was accepted ({getattr(inv, 'invocation_id', None)})")
                    elif after != before:
                        rep.fail(f"machine:{kind}:{tag}:rejected-submission-changed-state", f"counts {before} -> {after}")
                    continue
                if err is not None:
                    rep.fail(f"machine:{kind}:{tag}:unexpected-rejection", f"submission {a} rejected: {err}")
                    continue
                if existing is not None:
                    self.flags.add("reused")
                    want = self.invs[existing]["ids"][kind]
                    if inv.invocation_id != want:
                        rep.fail(f"machine:{kind}:{tag}:duplicate-not-collapsed", f"submission {a} (key {key}) returned {inv.invocation_id[:8]} but invocation {want[:8]} with the same key is still REGISTERED")
                    if after != before:
                        rep.fail(f"machine:{kind}:{tag}:reuse-created-something", f"reusing submission changed (invocations, queue) {before} -> {after}")
                else:
                    known_ids = {m["ids"][kind] for m in self.invs if m["status"] != "PURGED"}
                    if inv.invocation_id in known_ids:
                        rep.fail(f"machine:{kind}:{tag}:not-a-new-invocation", f"submission {a} (key {key}) returned existing {inv.invocation_id[:8]} although no REGISTERED invocation has that key")
                    if after != (before[0] + 1, before[1] + 1):
                        rep.fail(f"machine:{kind}:{tag}:new-submission-counts", f"(invocations, queue) {before} -> {after}, expected +1/+1")
                    new_ids[kind] = inv.invocation_id
            if existing is None and not expect_error and len(new_ids) == 2:
                self.invs.append({"args": a, "status": "REGISTERED", "ids": new_ids})
            self._invariant()

        def _registered(self):
            return [j for j, m in enumerate(self.invs) if m["status"] == "REGISTERED"]

        @precondition(lambda self: self._registered())
        @rule(sel=st.integers(0, 9), then=st.sampled_from(["pending", "success", "failed"]))
        def leave_registered(self, sel, then):
            rs = self._registered()
            j = rs[sel % len(rs)]
            self._t("leave", j, then)
            A = apps.rctx("A")
            for kind, (app, _) in self.apps.items():
                iid = self.invs[j]["ids"][kind]
                app.orchestrator.set_invocation_status(iid, S.PENDING, A)
                if then != "pending":
                    app.orchestrator.set_invocation_status(iid, S.RUNNING, A)
                    app.orchestrator.set_invocation_status(iid, S.SUCCESS if then == "success" else S.FAILED, A)
            self.invs[j]["status"] = then.upper()
            if mode != "DISABLED":
                self.left_keys.add(key_of(mode, keys, self.invs[j]["args"]))
            self._invariant()

        @precondition(lambda self: any(m["status"] in ("SUCCESS", "FAILED") for m in self.invs))
        @rule()
        def auto_purge(self):
            # the purge period is 0 h: every final invocation is due; purging one must not disturb the index of the others
            self._t("auto_purge")
            for kind, (app, _) in self.apps.items():
                app.orchestrator.auto_purge()
            for m in self.invs:
                if m["status"] in ("SUCCESS", "FAILED"):
                    m["status"] = "PURGED"
            self.flags.add("auto_purged")
            self._invariant()

        def _invariant(self):
            if mode == "DISABLED":
                return
            for kind, (app, _) in self.apps.items():
                per_key: dict[Any, int] = {}
                for m in self.invs:
                    if m["status"] == "PURGED":
                        continue
                    st_ = app.orchestrator.get_invocation_status(m["ids"][kind]).name
                    if st_ != m["status"]:
                        rep.fail(f"machine:{kind}:{tag}:status-mismatch", f"{m} has status {st_}")
                    if st_ == "REGISTERED":
                        kk = key_of(mode, keys, m["args"])
                        per_key[kk] = per_key.get(kk, 0) + 1
                bad = {k_: n for k_, n in per_key.items() if n > 1}
                if bad:
                    rep.fail(f"machine:{kind}:{tag}:two-registered-per-key", f"{bad}")

        def teardown(self):
            both = self.resub_while_registered & self.resub_after_left
            nt = bool(both) if mode != "DISABLED" else len(self.invs) >= 3
            part.case(key=(cfg_idx, self.trace), nontrivial=nt, classes=[f"cfg_{tag}", *sorted(self.flags), f"len{min(len(self.trace) // 10 * 10, 40)}"],
                      sample={"config": [mode, list(keys), raise_opt], "trace": [list(map(str, o)) for o in self.trace[:20]]})

    run_machine(rep, Machine, seed, make_settings(examples, steps), f"machine:{tag}")
    return part.dump()


def run(ctx: Ctx) -> None:
    known = sorted(ctx.known_keys())
    ex = 30 if ctx.quick else 500
    jobs = []
    for c in range(len(CONFIGS)):
        for k in range(2):
            jobs.append((c, ctx.seed * 1000 + c * 10 + k, ex, 40, known))
    merge_parts(ctx, pmap(machine_shard, jobs))
    ctx.assumptions.append("the raise option is generated only with KEYS mode (the statement's domain); registration keys are computed by the harness from the submitted arguments")


def replay(case: dict) -> int:
    print("machine traces are replayed by re-running the check with the recorded seed; trace:")
    for op in case["case"]["trace"]:
        print("  ", op)
    return 2
