"""C17 - applications with different ids are fully isolated, for any id string.

Parts:
  names    pure: sanitize_table_prefix / TableNames over adversarial id pairs (identifier syntax, case-insensitive
           distinctness, no id's purge pattern matches another id's tables)
  sqlite   2-3 apps sharing one SQLite file: interleaved operations incl. purge of each component; snapshot(B)
           (public read-out + dump of B's tables) unchanged by any operation on A
  mem      the same with in-memory components in one process
"""

from __future__ import annotations

import re
from typing import Any

from verif import apps, observe, tasks
from verif.core import Ctx, Part, merge_parts, ncpu, pmap
from verif.hyp import Reporter, make_settings, run_given

LEVEL = "exploration"

NAMES_RULE = (
    "pairs of application ids from an adversarial generator (punctuation/case variants, ids equal to or extending another id's computed storage prefix "
    "with and without a component suffix, wildcard-shaped variants, quotes ; -- % _ unicode whitespace leading digits, long ids) for every component; "
    "non-trivial = pair that differs only in case/punctuation, embeds the other's computed prefix, or contains SQL metacharacters; distinct = (id a, id b)"
)
OPS_RULE = (
    "2-3 apps with adversarial ids on one SQLite file (resp. Mem components in one process); sequences of <=14 operations (submit, claim+finish with "
    "result/exception, heartbeat, wait declaration, event emission, externalised client data, purge of each single component, app.purge) on a chosen "
    "app; after every operation the snapshot of every OTHER app must be unchanged; non-trivial = id pair as above and >=1 purge in the sequence; "
    "distinct = (ids, operation list)"
)

COMPONENTS = ["orchestrator", "broker", "state_backend", "trigger", "client"]


def prefix_of(app_id: str, component: str | None = None) -> str:
    from pynenc.util.sqlite_utils import TableNames, sanitize_table_prefix

    if component is None:
        return sanitize_table_prefix(app_id)
    return TableNames(app_id, component).table_prefix


def id_pairs_strategy():
    from hypothesis import strategies as st

    base = st.sampled_from(["app-a", "app_a", "my.app", "a", "x y", "9lives", "tenant%1", "it's", 'say "hi"', "a;DROP TABLE x;--", "ünï", "a" * 70, "_", "__", "app__broker", "A-B", "a-b"])

    def variants(a: str):
        p = prefix_of(a)
        outs = [a, a.upper(), a.lower(), a.replace("-", "_"), a.replace("_", "-"), a.replace("-", "."), a + " ", " " + a, a + "_", a + "__", a + "%", a + "'"]
        outs.append(p)
        for comp in COMPONENTS:
            outs.append(f"{p}__{comp}")
            outs.append(f"{p}__{comp}_x")
            outs.append(f"{p}__{comp}_message_queue")
        # ids equal to / extending the REAL storage prefix of each component of a (whatever tag the component uses)
        for cp in table_names(a):
            outs.extend([cp, cp + "_archive", cp + "-2", cp + "_x", cp + "x"])
        # wildcard-shaped: every '_' of the prefix is a LIKE wildcard
        for i, ch in enumerate(p):
            if ch == "_" and i < 12:
                outs.append(p[:i] + "X" + p[i + 1:] + "__broker_y")
                outs.append(p[:i] + "X" + p[i + 1:] + "__state_backend_y")
        return st.sampled_from(sorted(set(o for o in outs if o.strip())))

    return base.flatmap(lambda a: st.tuples(st.just(a), st.one_of(variants(a), base)))


def like(pattern: str, name: str) -> bool:
    """SQLite LIKE: % any run, _ any single char, ASCII case-insensitive."""
    rx = "".join(".*" if c == "%" else "." if c == "_" else re.escape(c) for c in pattern)
    return re.fullmatch(rx, name, flags=re.IGNORECASE | re.DOTALL) is not None


def adversarial(a: str, b: str) -> bool:
    pa = prefix_of(a)
    norm = lambda s: re.sub(r"[^a-z0-9]", "", s.lower())  # noqa: E731
    return a != b and (norm(a) == norm(b) or pa in b or prefix_of(b) in a or bool(re.search(r"['\";%_\\-]", a + b)))


def table_names(app_id: str) -> dict[str, list[str]]:
    """All table names the five SQLite components derive for an app id (from their Tables classes)."""
    from pynenc.broker import sqlite_broker
    from pynenc.client_data_store import sqlite_client_data_store
    from pynenc.orchestrator import sqlite_orchestrator
    from pynenc.state_backend import sqlite_state_backend
    from pynenc.trigger import sqlite_trigger

    out = {}
    for mod in (sqlite_orchestrator, sqlite_broker, sqlite_state_backend, sqlite_trigger, sqlite_client_data_store):
        t = mod.Tables(app_id)
        names = [v for k, v in vars(t).items() if k.isupper() and isinstance(v, str)]
        out[t.table_prefix] = names
    return out


def names_shard(seed: int, examples: int, known: list[str]) -> dict:
    import hypothesis
    from hypothesis import given

    part = Part("names", NAMES_RULE)
    rep = Reporter(part, known)

    @hypothesis.seed(seed)
    @make_settings(examples)
    @given(pair=id_pairs_strategy())
    def prop(pair):
        a, b = pair
        rep.holder["case"] = {"a": a, "b": b}
        ta, tb = table_names(a), table_names(b)
        part.case(key=(a, b), nontrivial=adversarial(a, b), classes=["same_id" if a == b else "different_ids", "adversarial" if adversarial(a, b) else "plain"], sample={"a": a, "b": b})
        for names in ta.values():
            for n in names:
                rep.check(re.fullmatch(r"[A-Za-z_][A-Za-z0-9_]*", n) is not None, "names:not-an-identifier", f"table name {n!r} for app id {a!r}")
        if a == b:
            return
        all_a = {n.lower() for ns in ta.values() for n in ns}
        all_b = {n.lower() for ns in tb.values() for n in ns}
        rep.check(not (all_a & all_b), "names:collision", f"ids {a!r} and {b!r} share table names {sorted(all_a & all_b)[:3]}")
        # a's purge of a component must not select any of b's tables: run the real selection
        # (delete_tables_with_prefix) on a scratch database holding one row in every table of both apps
        import os
        import sqlite3

        from pynenc.util.sqlite_utils import delete_tables_with_prefix

        d = apps.new_tmpdir()
        try:
            db = os.path.join(d, "names.db")
            conn = sqlite3.connect(db)
            orig_a = sorted(n for ns in ta.values() for n in ns)
            orig_b = sorted(n for ns in tb.values() for n in ns)
            for n in orig_a + orig_b:
                conn.execute(f'CREATE TABLE "{n}" (x INTEGER)')
                conn.execute(f'INSERT INTO "{n}" VALUES (1)')
            conn.commit()
            for pa, own in ta.items():
                delete_tables_with_prefix(db, pa)
                for n in orig_b:
                    if conn.execute(f'SELECT COUNT(*) FROM "{n}"').fetchone()[0] != 1:
                        rep.fail("names:purge-selects-foreign-table", f"purging prefix {pa!r} of {a!r} emptied table {n!r} of {b!r}")
                for n in own:
                    if conn.execute(f'SELECT COUNT(*) FROM "{n}"').fetchone()[0] != 0:
                        rep.fail("names:purge-misses-own-table", f"purging prefix {pa!r} of {a!r} left rows in its own table {n!r}")
            conn.close()
        finally:
            apps.drop_tmpdir(d)

    run_given(rep, prop, "names")
    return part.dump()


OPS = ["submit", "finish", "fail", "heartbeat", "wait", "event", "clientdata", "clientdata_same", "purge_broker", "purge_orchestrator", "purge_state_backend",
       "purge_trigger", "purge_client_data_store", "purge_app"]


def apply_op(app: Any, task: Any, op: str, n: int) -> None:
    from pynenc import context
    from pynenc.invocation.status import InvocationStatus as S

    context.set_runner_context(app.app_id, apps.rctx("CLIENT"))
    A = apps.rctx("A")
    if op == "submit":
        task(n)
    elif op in ("finish", "fail"):
        inv = task(n)
        app.orchestrator.set_invocation_status(inv.invocation_id, S.PENDING, A)
        app.orchestrator.set_invocation_status(inv.invocation_id, S.RUNNING, A)
        if op == "finish":
            app.orchestrator.set_invocation_result(inv, {"n": n, "pad": "x" * 1100}, A)
        else:
            app.orchestrator.set_invocation_exception(inv, ValueError("boom", n), A)
    elif op == "heartbeat":
        app.orchestrator.register_runner_heartbeats([f"run-{n}"], can_run_atomic_service=True)
    elif op == "wait":
        a, b = task(n), task(n + 1000)
        app.orchestrator.waiting_for_results(a.invocation_id, [b.invocation_id])
    elif op == "event":
        app.trigger.emit_event("evt", {"n": n})
    elif op in ("clientdata", "clientdata_same"):
        # "same": every application externalises identical content (same content-hash key in different stores)
        obj = {"blob": "z" * 1200, "n": n} if op == "clientdata" else {"blob": "s" * 1200}
        ref = app.client_data_store.serialize(obj)
        # the application's own data must be there for a reader without this process's cache, whatever the other applications stored
        app.client_data_store._deserialized_cache.clear()
        back = app.client_data_store.deserialize(ref)
        if back != obj:
            raise AssertionError(f"client data of app {app.app_id!r} does not resolve to what was stored")
    elif op.startswith("purge_"):
        what = op[len("purge_"):]
        if what == "app":
            app.purge()
        else:
            getattr(app, what).purge()
    apps.flush(app)


def ops_shard(kind: str, seed: int, examples: int, known: list[str]) -> dict:
    import hypothesis
    from hypothesis import given, strategies as st
    from pynenc.trigger.trigger_builder import TriggerBuilder

    part = Part(kind, OPS_RULE)
    rep = Reporter(part, known)

    @hypothesis.seed(seed)
    @make_settings(examples)
    @given(pair=id_pairs_strategy(), third=st.one_of(st.none(), st.sampled_from(["zz", "app-a", "APP_A"])),
           ops=st.lists(st.tuples(st.integers(0, 2), st.sampled_from(OPS)), min_size=3, max_size=14))
    def prop(pair, third, ops):
        ids = [pair[0], pair[1]] + ([third] if third else [])
        ids = list(dict.fromkeys(ids))
        if len(ids) < 2:
            return
        rep.holder["case"] = {"backend": kind, "ids": ids, "ops": [list(o) for o in ops]}
        db = apps.new_db_path() if kind == "sqlite" else None
        group = []
        try:
            for i in ids:
                app = apps.make_app(kind, app_id=i, db=db)
                t = app.task(tasks.ident)
                etask = app.task(tasks.other)
                try:
                    app.trigger.register_task_triggers(etask, TriggerBuilder().on_event("evt"))
                except Exception as exc:  # noqa: BLE001
                    rep.fail(f"{kind}:setup-error:{type(exc).__name__}", f"registering a trigger for app id {i!r}: {exc}")
                group.append((app, t))
            # give every app some state first
            for k, (app, t) in enumerate(group):
                try:
                    for op in ("submit", "finish", "clientdata", "clientdata_same", "event", "wait", "heartbeat"):
                        apply_op(app, t, op, 100 + k)
                except Exception as exc:  # noqa: BLE001
                    rep.fail(f"{kind}:op-raised:{type(exc).__name__}", f"app id {app.app_id!r}: {type(exc).__name__}: {exc}")
                    return
            snaps = [observe.snapshot(app) for app, _ in group]
            purges = 0
            for n, (who, op) in enumerate(ops):
                who = who % len(group)
                app, t = group[who]
                purges += op.startswith("purge")
                try:
                    apply_op(app, t, op, n)
                except Exception as exc:  # noqa: BLE001
                    rep.fail(f"{kind}:op-raised:{type(exc).__name__}", f"{op} on app id {app.app_id!r}: {type(exc).__name__}: {exc}")
                    return
                for j, (other, _) in enumerate(group):
                    if j == who:
                        snaps[j] = observe.snapshot(other)
                        continue
                    now = observe.snapshot(other)
                    if now != snaps[j]:
                        d = observe.diff(snaps[j], now)
                        comp = op if op.startswith("purge") else "op"
                        rep.fail(f"{kind}:foreign-state-changed:{comp}", f"{op} on {app.app_id!r} changed app {other.app_id!r}: {d[:4]}")
                        snaps[j] = now
            adv = any(adversarial(a, b) for a in ids for b in ids if a != b)
            part.case(key=(kind, ids, ops), nontrivial=adv and purges >= 1, classes=[f"apps{len(ids)}", "adversarial_ids" if adv else "plain_ids", f"purges{min(purges, 3)}"],
                      sample=rep.holder["case"])
        finally:
            if db:
                import os

                apps.drop_tmpdir(os.path.dirname(db))

    run_given(rep, prop, kind, max_buckets=5)
    return part.dump()


def _dispatch(name: str, args: tuple) -> dict:
    return globals()[name](*args)


def run(ctx: Ctx) -> None:
    known = sorted(ctx.known_keys())
    q = ctx.quick
    jobs = [("names_shard", (ctx.seed * 100 + k, 400 if q else 20000, known)) for k in range(2)]
    jobs += [("ops_shard", ("sqlite", ctx.seed * 100 + 10 + k, 12 if q else 400, known)) for k in range(8)]
    jobs += [("ops_shard", ("mem", ctx.seed * 100 + 30 + k, 25 if q else 600, known)) for k in range(4)]
    merge_parts(ctx, pmap(_dispatch, jobs))
    try:
        from verif.props import c17_fuzz

        c17_fuzz.run(ctx)
    except ImportError:
        pass
    ctx.assumptions.append("snapshot = public read-out of every component + (SQLite) digest of every table carrying the app's storage prefix")


def replay(case: dict) -> int:
    print("re-run the check with the recorded seed to replay:", case["case"])
    return 2
