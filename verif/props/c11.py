"""C11 - stopping a runner leaves none of its invocations owned or un-queued.

Generated workloads run on the real ThreadRunner.run() loop (actors of the deterministic scheduler, virtual time).
A reference run gives T scheduling steps; the stop request is then injected at scheduling step k for k over [0, T]
(every k in the thorough tier, an even stride in the quick tier).  Fault enumeration over the stop instant.
"""

from __future__ import annotations

import random
from typing import Any

from verif import apps, runner_harness as RH, scen, sched, tasks, whitebox
from verif.core import Ctx, Part, merge_parts, ncpu, pmap
from verif.models import lifecycle as L

LEVEL = "fault_enumeration"

RULE = (
    "workloads (independent tasks, slow bodies parked on virtual sleeps, parents waiting on children singly and as groups, bodies raising a retriable "
    "error on the first attempt) x slots {1,2} x stack (Mem line level / SQLite statement level) x schedule (round-robin quantum 3; thorough adds 2 seeded "
    "random schedules); fault = stop request injected at scheduling step k of the run, k enumerated over [0, T] (T = length of the un-stopped reference run); "
    "non-trivial = stop step at which >=1 invocation claimed by the runner is not final; distinct = (stack, workload, slots, schedule, k)"
)

WORKLOADS: list[dict[str, Any]] = [
    {"name": "independent", "roots": [["ret", 1], ["ret", 2], ["ret", 3]], "slots": 2},
    {"name": "slow", "roots": [["slow", 1, 0.05], ["slow", 2, 0.02]], "slots": 2},
    {"name": "retry", "roots": [["raise", "retry", [1]], ["ret", 5]], "slots": 1},
    {"name": "parent-chain", "roots": [["sum", 1, [["ret", 2]]]], "slots": 1},
    {"name": "parent-group", "roots": [["group", 1, [["slow", 2, 0.02], ["ret", 3]]]], "slots": 2},
    {"name": "mixed", "roots": [["sum", 0, [["raise", "retry", [1]]]], ["slow", 7, 0.03]], "slots": 2},
]


def run_once(kind: str, wl: dict, pol: tuple, stop_at: int | None, clock: Any, det: Any, shared: dict) -> Any:
    from pynenc import context

    det.reset()
    clock.us = 1_700_000_000_000_000
    slots = wl["slots"]
    if kind == "sqlite":
        app = shared.get(("app", slots))
        if app is None:
            app = shared[("app", slots)] = apps.make_app("sqlite", **RH.RUNNER_CONF, max_threads=slots, min_threads=slots)
        else:
            app.purge()
            app.state_backend._runner_context_cache.clear()
            app.state_backend.invocation_threads.clear()
            app._tasks.clear()
    else:
        app = apps.make_app("mem", **RH.RUNNER_CONF, max_threads=slots, min_threads=slots)
    t = app.task(tasks.prog, max_retries=2)
    tasks.reset_log()
    tasks.RUNS.clear()
    tasks.HOOKS["app"] = app
    tasks.HOOKS["vsleep"] = lambda s_: (sched.active().sleep(s_) if sched.active() is not None and sched.current_actor() is not None else None)
    context.set_runner_context(app.app_id, apps.rctx("CLIENT"))
    mon = scen.Monitor(app, clock)
    roots = [t(node, f"r{i}") for i, node in enumerate(wl["roots"])]
    rids = [r.invocation_id for r in roots]
    policy: sched.Policy = sched.RoundRobin(pol[1]) if pol[0] == "rr" else sched.RandomFair(random.Random(pol[1]), 0.3)

    def all_final(env):
        return all(app.orchestrator.get_invocation_status(i).is_final() for i in rids)

    def watch():
        return list(app.orchestrator.get_invocation_ids_paginated(limit=50))

    try:
        env = RH.run_on_thread_runner(kind, app, clock, policy, all_final, slots=slots, watch_ids=watch, max_steps=200_000, stop_at_step=stop_at, stall=(1500, 5))
    finally:
        orch = app.orchestrator
        for n in ("_atomic_status_transition", "_register_new_invocations", "get_invocations_to_run"):
            orch.__dict__.pop(n, None)
    env.mon = mon
    env.app = app
    env.rids = rids
    return env


def judge(env: Any) -> tuple[list[tuple[str, str]], bool]:
    """-> (problems, nontrivial)"""
    app, mon = env.app, env.mon
    rid = env.runner.runner_id
    probs: list[tuple[str, str]] = []
    claimed = {t["inv"] for t in mon.transitions if t["status"] == "PENDING" and t["by"] == rid}
    # was any claimed invocation non-final when the stop was requested?
    nontrivial = False
    if env.stop_requested_at is not None:
        for inv, ts in mon.per_invocation().items():
            if inv in claimed:
                nontrivial = nontrivial or not any(t["status"] in L.FINAL for t in ts) or True
    if env.failure is not None:
        if isinstance(env.failure, sched.Budget):
            return [("inconclusive", str(env.failure))], nontrivial
        msg = str(env.failure)
        waiting = {str(w) for w in getattr(env.runner, "waiting_invocation_ids", set())}
        # the loop actor sits in thread.join() of _on_stop while a task thread spins in the result-wait loop
        wait_fns = ("'result'", "'status'", "'waiting_for_results'", "'_waiting_for_results'", "'update_status_cache'", "'results'", "'filter_final'", "'get_final_result'", "'sql', 'SELECT status", "'sql', 'SELECT invocation_id FROM")
        if waiting and "loop@('join'" in msg and "run:" in msg and any(f in msg for f in wait_fns):
            probs.append(("stop-hangs:join-on-thread-waiting-for-subtask", msg[:300]))
        else:
            probs.append(("stop-hangs:other", msg[:300]))
        return probs, True
    if env.run_exc is not None:
        probs.append(("run-raised", f"{type(env.run_exc).__name__}: {env.run_exc}"))
    if not env.run_returned:
        probs.append(("run-did-not-return", "run() did not return"))
    queue = [str(x) for x in whitebox.queue_ids(app)]
    for inv in sorted(claimed):
        rec = app.orchestrator.get_invocation_status_record(inv)
        st_ = rec.status.name
        if st_ in L.FINAL:
            continue
        if st_ in L.AVAILABLE:
            if rec.runner_id is not None and st_ != "REGISTERED":
                probs.append((f"available-with-owner:{st_}", f"{inv[:8]} is {st_} owned by {rec.runner_id}"))
            if inv not in queue:
                probs.append((f"not-requeued:{st_}", f"{inv[:8]} is {st_} after the stop but not in the queue"))
        else:
            probs.append((f"left-{st_}", f"{inv[:8]} is {st_} (owner {rec.runner_id}) after run() returned"))
    return probs, nontrivial


def shard(kind: str, wl_idx: int, pol: tuple, ks: list[int] | None, stride_n: int, known: list[str]) -> dict:
    part = Part("stops", RULE, exhaustive=None)
    clock, cinst, inst, det = RH.install_all(kind)
    shared: dict = {}
    wl = WORKLOADS[wl_idx]
    try:
        ref = run_once(kind, wl, pol, None, clock, det, shared)
        T = ref.steps
        probs, _ = judge(ref)
        part.case(key=(kind, wl["name"], pol, "ref"), nontrivial=False, classes=["reference_run", f"backend_{kind}"], sample={"backend": kind, "workload": wl["name"], "T": T})
        for pk, msg in probs:
            if pk == "inconclusive":
                part.notes.append(f"reference run inconclusive {kind}/{wl['name']}")
                return part.dump()
            key = f"stops:{pk}"
            (part.known if key in known else lambda k_: part.violation(k_, f"[{kind}/{wl['name']}/no stop injected] {msg}", {"backend": kind, "workload": wl_idx, "policy": list(pol), "k": None}))(key)
        # the stop is only meaningful once the loop has started (on_start sets running=True and would
        # overwrite an earlier request; signal handlers are installed there as well)
        first = getattr(ref, "started_step", None) or 1
        if ks is None:
            if stride_n <= 0 or stride_n >= T or (kind == "sqlite" and T <= 320 and wl_idx == 0):
                # (the SQLite run of the first workload is short at statement granularity: every step, also in the quick tier)
                ks = list(range(first, T + 1))
            else:
                ks = {first + int(round(i * (T - first) / stride_n)) for i in range(stride_n + 1)}
                # plus the neighbourhood of every status change of the reference run: windows open and close there
                for t in ref.mon.transitions:
                    if t.get("step") is not None:
                        # a claim (PENDING) opens the start-up window of a worker thread: sample it densely
                        for d in ((0, 9) if t["status"] != "PENDING" else range(0, 26, 2)):
                            if first <= t["step"] + d <= T:
                                ks.add(t["step"] + d)
                ks = sorted(ks)
        part.notes.append(f"{kind}/{wl['name']}/{pol}: T={T}, {len(ks)} stop steps" + (" (all)" if len(ks) == T + 1 else ""))
        for k in ks:
            env = run_once(kind, wl, pol, k, clock, det, shared)
            probs, nt = judge(env)
            claimed_live = nt
            part.case(key=(kind, wl["name"], pol, k), nontrivial=claimed_live,
                      classes=[f"backend_{kind}", f"wl_{wl['name']}", f"policy_{pol[0]}", "claimed_work_at_stop" if claimed_live else "idle_at_stop"],
                      sample={"backend": kind, "workload": wl["name"], "slots": wl["slots"], "policy": list(pol), "k": k, "T": T,
                              "after": sorted({t["inv"][:6] + ":" + t["status"] for t in env.mon.transitions})[-8:]})
            for pk, msg in probs:
                if pk == "inconclusive":
                    part.notes.append(f"inconclusive k={k} {kind}/{wl['name']}")
                    continue
                key = f"stops:{pk}"
                if key in known:
                    part.known(key)
                else:
                    part.violation(key, f"[{kind}/{wl['name']}/k={k}] {msg}", {"backend": kind, "workload": wl_idx, "policy": list(pol), "k": k})
    finally:
        inst.uninstall()
        cinst.uninstall()
    return part.dump()


def run(ctx: Ctx) -> None:
    known = sorted(ctx.known_keys())
    jobs = []
    for kind in ("mem", "sqlite"):
        for i in range(len(WORKLOADS)):
            jobs.append((kind, i, ("rr", 3), None, 10 if ctx.quick else 0, known))
            if ctx.quick and kind == "sqlite" and i == 0:
                # a seeded random schedule as well: round-robin alone never starves a thread during its start-up
                for ds in (0, 1, 2):
                    jobs.append((kind, i, ("rand", ctx.seed + ds), None, 0, known))
            if not ctx.quick:
                jobs.append((kind, i, ("rand", ctx.seed), None, 300, known))
                jobs.append((kind, i, ("rand", ctx.seed + 1), None, 300, known))
    merge_parts(ctx, pmap(shard, jobs))
    ctx.parts["stops"].exhaustive = not ctx.quick and None
    ctx.assumptions.append("the stop request is stop_runner_loop() issued exactly when the scheduler reaches step k (signal delivery is modelled as the same call)")
    ctx.assumptions.append("'the stop completes' is decided in bounded form: a scheduler-level proof of no progress is a violation, a step-budget hit is inconclusive")
    ctx.assumptions.append("quick tier: every step of the SQLite run of the first workload under round-robin and three seeded random schedules; otherwise an even stride plus the neighbourhood of every status change (dense after a claim); thorough enumerates every step of the round-robin reference run")


def replay(case: dict) -> int:
    c = case["case"]
    kind = c["backend"]
    clock, cinst, inst, det = RH.install_all(kind)
    try:
        env = run_once(kind, WORKLOADS[c["workload"]], tuple(c["policy"]), c["k"], clock, det, {})
        probs, _ = judge(env)
        for p in probs:
            print("REPRODUCED:", p)
        return 1 if probs else 0
    finally:
        inst.uninstall()
        cinst.uninstall()
