"""C10 - the stored history of an invocation is exactly its sequence of status changes.

Parts:
  schedules  the C02 / C06 executions (claims, retries, reroutes, kills, recoveries) with the background
             history writers as independent actors; oracle = the monitor's log of successful transitions
  sequences  Hypothesis request sequences (accepted and rejected, single and batch registration) on both
             backends with a ticking virtual clock
"""

from __future__ import annotations

from typing import Any

from verif import apps, scen, tasks, vclock
from verif.core import Ctx, Part, merge_parts, ncpu, pmap
from verif.hyp import Reporter, make_settings, run_given
from verif.models import lifecycle as L
from verif.props import c02

LEVEL = "exploration"

SCHED_RULE = (
    "executions of the C02 scenarios (claims over duplicate/blocking queues, retry, pending recovery, kill-and-reroute) under DFS/PCT/random "
    "schedules with every background history writer scheduled as an independent actor; oracle: stored history ordered by change time == "
    "monitor log of successful transitions (statuses, runner per entry, first REGISTERED, last = current status, path in the graph, no foreign "
    "entry); non-trivial = execution with >=5 status changes on one invocation or >=2 runners changing one invocation; distinct = (scenario, choice list)"
)
SEQ_RULE = (
    "Hypothesis: 1-4 invocations registered singly or as one parallelize batch, then up to 25 status requests (accepted and rejected) by 3 runners "
    "through set_invocation_status on Mem and SQLite with a ticking virtual clock; non-trivial = >=5 accepted changes incl. a rejected request; "
    "distinct = (backend, registration mode, request list)"
)


def sched_shard(kind: str, sc_idx: int, mode: str, p_max: int, runs: int, seed: int, known: list[str]) -> dict:
    d = c02.shard(kind, sc_idx, mode, p_max, runs, seed, known, with_history=True, part_name="schedules", rule=SCHED_RULE)
    return d


def seq_shard(kind: str, seed: int, examples: int, known: list[str]) -> dict:
    import hypothesis
    from hypothesis import given, strategies as st
    from pynenc import context
    from pynenc.invocation.status import InvocationStatus as S

    part = Part("sequences", SEQ_RULE)
    rep = Reporter(part, known)
    clock = vclock.VClock(tick_us=1)
    cinst = vclock.install(clock)
    shared: dict[str, Any] = {}

    def get_app():
        if "app" not in shared or shared["n"] > 100:
            shared["app"] = apps.make_app(kind)
            shared["task"] = shared["app"].task(tasks.keyed)
            shared["n"] = 0
        shared["n"] += 1
        return shared["app"], shared["task"]

    reqs = st.lists(st.tuples(st.integers(0, 3), st.sampled_from(L.STATUSES), st.sampled_from(["A", "B", "C"])), max_size=25)
    # bias towards requests that the model accepts
    guided = st.lists(st.tuples(st.integers(0, 3), st.integers(0, 13), st.sampled_from(["A", "A", "B"])), min_size=6, max_size=30)

    @hypothesis.seed(seed)
    @make_settings(examples)
    @given(n=st.integers(1, 4), batch=st.booleans(), plain=reqs, guide=guided, use_guide=st.sampled_from([True, True, True, False]))
    def prop(n, batch, plain, guide, use_guide):
        app, task = get_app()
        context.set_runner_context(app.app_id, apps.rctx("CLIENT"))
        mon = scen.Monitor(app, clock)
        try:
            if batch and n > 1:
                invs = list(task.parallelize([(f"b{shared['n']}", i, 0) for i in range(n)]).invocations)
            else:
                invs = [task(f"s{shared['n']}", i, 0) for i in range(n)]
            ids = [i.invocation_id for i in invs]
            model = {i: ["REGISTERED", None] for i in ids}
            acc = rej = 0
            trace = []
            seq = guide if use_guide else plain
            for (k, st_, who) in seq:
                iid = ids[k % n]
                cur, owner = model[iid]
                if use_guide:
                    succ = sorted(t for (s, t) in L.EDGES if s == cur)
                    if not succ:
                        continue
                    target = succ[st_ % len(succ)] if st_ % 4 else L.STATUSES[st_]
                    who = owner if (cur in L.OWNED and st_ % 5) else who
                else:
                    target = st_
                trace.append((k % n, target, who))
                out = L.step(cur, owner, target, who)
                try:
                    app.orchestrator.set_invocation_status(iid, S[target], apps.rctx(who))
                    ok = True
                except Exception:  # noqa: BLE001 - rejected requests
                    ok = False
                if ok:
                    acc += 1
                    rec = app.orchestrator.get_invocation_status_record(iid)
                    model[iid] = [rec.status.name, rec.runner_id]
                else:
                    rej += 1
            rep.holder["case"] = {"backend": kind, "n": n, "batch": batch, "requests": trace}
            probs = scen.history_problems(app, mon)
            part.case(key=(kind, n, batch, trace), nontrivial=acc >= 5 and rej >= 1,
                      classes=[f"backend_{kind}", "batch" if (batch and n > 1) else "single", f"accepted{min(acc // 3 * 3, 12)}", "guided" if use_guide else "plain"],
                      sample={"backend": kind, "n": n, "batch": batch, "requests": trace[:10], "accepted": acc, "rejected": rej})
            for pk, msg in probs:
                rep.fail(f"sequences:{kind}:{pk}", msg)
        finally:
            orch = app.orchestrator
            for nm in ("_atomic_status_transition", "_register_new_invocations", "get_invocations_to_run"):
                orch.__dict__.pop(nm, None)

    try:
        run_given(rep, prop, f"sequences:{kind}")
    finally:
        cinst.uninstall()
    return part.dump()


def run(ctx: Ctx) -> None:
    known = sorted(ctx.known_keys())
    jobs = []
    for kind in ("mem", "sqlite"):
        for i, sc in enumerate(c02.SCENARIOS):
            nact = len(sc["pollers"]) + (2 if (sc.get("recovery") or sc.get("kill")) else 0) + (1 if sc.get("batch") else 0)
            if nact == 2:
                jobs.append((kind, i, "dfs", 1, 120 if ctx.quick else 3000, ctx.seed, known))
            jobs.append((kind, i, "rand", 0, 40 if ctx.quick else 1500, ctx.seed + 11, known))
            jobs.append((kind, i, "pct", 0, 30 if ctx.quick else 1500, ctx.seed + 13, known))
    merge_parts(ctx, pmap(sched_shard, jobs))
    # non-triviality for the schedule part is re-stated: count comes from the C02 rule (forced switch inside a claim window)
    shards = max(2, ncpu() // 2)
    ex = (60, 25) if ctx.quick else (1500, 400)
    jobs2 = [("mem", ctx.seed * 1000 + k, ex[0], known) for k in range(shards)] + [("sqlite", ctx.seed * 1000 + 100 + k, ex[1], known) for k in range(shards)]
    merge_parts(ctx, pmap(seq_shard, jobs2))
    try:
        from verif.props import c06

        if hasattr(c06, "history_jobs"):
            merge_parts(ctx, pmap(c06.history_shard, c06.history_jobs(ctx, known)))
    except ImportError:
        pass
    ctx.assumptions.append("history is ordered by the time of the change (status_record.timestamp); the virtual clock ticks 1us per read so change times are unique")
    ctx.assumptions.append("oracle = harness monitor wrapped around the app instance; it logs the record returned by every successful _atomic_status_transition / _register_new_invocations")


def replay(case: dict) -> int:
    c = case["case"]
    if "choices" in c:
        return c02.replay(case)
    print("sequence cases are replayed by re-running the check with the recorded seed")
    return 2
