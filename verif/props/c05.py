"""C05 - a final status always comes with the matching result or exception.

Parts:
  values     generated results / exceptions x serializer x backend x threshold x store on/off, written through
             orchestrator.set_invocation_result / set_invocation_exception, read through a fresh client-side invocation
  schedules  a reader actor polling (status, get_final_result) while a worker actor finishes the invocation;
             bounded-preemption DFS at source-line (Mem) / SQL-statement (SQLite) granularity
"""

from __future__ import annotations

import copy
from typing import Any

from verif import apps, explore, sched, tasks, vclock
from verif.core import Ctx, Part, merge_parts, ncpu, pmap
from verif.gen import types as T
from verif.gen import values as V
from verif.hyp import Reporter, make_settings, run_given

LEVEL = "exploration"

SERIALIZERS = ["JsonSerializer", "JsonPickleSerializer", "PickleSerializer"]
VAL_RULE = (
    "Hypothesis: outcome = value (recursive, padded to straddle min_size_to_cache 16/64/1024) or exception (builtin, custom module-level, pynenc "
    "RetryError, with JSON-scalar args) x serializer x backend x client data store on/off; also reads at every non-final status; "
    "non-trivial = externalised value, nesting depth >= 2, or an exception with args; distinct = (configuration, outcome)"
)
SCHED_RULE = (
    "reader actor (status then get_final_result, repeatedly, on a fresh client-side invocation object, cached_status_time=0) against a worker actor "
    "finishing with a result / an exception / a retry; all schedules with <= p forced switches (DFS), Mem line level and SQLite statement level; "
    "non-trivial = a schedule in which the reader took a step between the worker's result/exception write and its status write; distinct = (scenario, choice list)"
)


_LATE: dict[int, type] = {}


def late_error(k: int) -> type:
    """A PynencError subclass defined on first use - i.e. possibly after failures have already been read back in this process
    (a lazily imported task module or plug-in does that)."""
    from pynenc.exceptions import PynencError

    if k not in _LATE:
        _LATE[k] = type(f"LateDefinedError{k}", (PynencError,), {"__module__": __name__})
    return _LATE[k]


def exc_strategy():
    from hypothesis import strategies as st
    from pynenc.exceptions import RetryError

    fixed = st.sampled_from([ValueError, KeyError, RuntimeError, ZeroDivisionError, T.AppError, T.AppError, T.AppError, T.OtherError, T.OtherError, RetryError])
    late = st.integers(0, 5).map(late_error)
    return st.builds(lambda cls, args: cls(*args), st.one_of(fixed, fixed, late), V.exc_args)


def values_shard(serializer: str, kind: str, seed: int, examples: int, known: list[str]) -> dict:
    import hypothesis
    from hypothesis import given, strategies as st
    from pynenc import context
    from pynenc.exceptions import InvocationError
    from pynenc.invocation.status import InvocationStatus as S

    part = Part("values", VAL_RULE)
    rep = Reporter(part, known)
    cache: dict[Any, Any] = {}

    def get_app(minsize, disable):
        k = (minsize, disable)
        if k not in cache:
            app = apps.make_app(kind, serializer_cls=serializer, min_size_to_cache=minsize, disable_client_data_store=disable, cached_status_time=0.0)
            cache[k] = (app, app.task(tasks.ident))
        return cache[k]

    outcome = st.one_of(st.tuples(st.just("value"), V.values_for(serializer, 8)), st.tuples(st.just("exception"), exc_strategy()),
                        st.tuples(st.just("unstorable"), st.sampled_from(["exception", "result"])))

    @hypothesis.seed(seed)
    @make_settings(examples)
    @given(out=outcome, minsize=st.sampled_from([16, 64, 1024]), delta=st.sampled_from([None, -1, 0, 1]), disable=st.sampled_from([False, False, True]), n=st.integers(0, 10**6))
    def prop(out, minsize, delta, disable, n):
        app, task = get_app(minsize, disable)
        context.set_runner_context(app.app_id, apps.rctx("CLIENT"))
        A = apps.rctx("A")
        what, payload = out
        if what == "value" and delta is not None:
            size0 = len(app.serializer.serialize(V.sized(payload, 0)))
            payload = V.sized(payload, max(0, minsize + delta - size0))
        expected = copy.deepcopy(payload)
        rep.holder["case"] = {"serializer": serializer, "backend": kind, "min_size_to_cache": minsize, "store_disabled": disable, "outcome": what, "payload": repr(payload)[:200]}
        inv = task(n)
        iid = inv.invocation_id

        def client():
            app.client_data_store._deserialized_cache.clear()
            return app.state_backend.get_invocation(iid)

        def must_refuse(where):
            c = client()
            try:
                got = c.get_final_result()
            except InvocationError:
                return
            except Exception as exc:  # noqa: BLE001 - any refusal is fine, a value is not
                return
            rep.fail(f"values:{kind}:value-while-{where}", f"get_final_result() returned {got!r:.100} while the invocation is {where}")

        must_refuse("REGISTERED")
        app.orchestrator.set_invocation_status(iid, S.PENDING, A)
        must_refuse("PENDING")
        app.orchestrator.set_invocation_status(iid, S.RUNNING, A)
        must_refuse("RUNNING")
        ext = False
        if what == "unstorable":
            # an outcome the configured serializer cannot encode: storing it fails - whatever happens then,
            # a final status must never be published without the matching result / exception
            bad: Any = (lambda: 0) if serializer == "PickleSerializer" else b"\x00raw-bytes"
            if serializer == "JsonPickleSerializer":
                bad = None
            raised = None
            try:
                if payload == "exception":
                    app.orchestrator.set_invocation_exception(inv, ValueError("unstorable", bad), A)
                else:
                    app.orchestrator.set_invocation_result(inv, {"x": bad}, A)
            except Exception as exc:  # noqa: BLE001
                raised = exc
            c = client()
            st_ = c.status
            if st_.is_final():
                try:
                    got = c.get_final_result()
                    ok = st_ == S.SUCCESS
                except ValueError as exc:
                    ok = st_ == S.FAILED and exc.args[:1] == ("unstorable",)
                except Exception:  # noqa: BLE001
                    ok = False
                if not ok:
                    rep.fail(f"values:{kind}:final-without-outcome", f"storing an un-encodable {payload} raised {type(raised).__name__ if raised else None}; the invocation is {st_.name} but its {payload} cannot be read back")
            part.case(key=(serializer, kind, "unstorable", payload, n % 7), nontrivial=True, classes=[serializer, f"backend_{kind}", "unstorable_" + payload, "store_raised" if raised else "store_ok"], sample=rep.holder["case"])
            return
        if what == "value":
            app.orchestrator.set_invocation_result(inv, payload, A)
            ext = app.client_data_store.is_reference(app.state_backend._get_result(iid)) if hasattr(app.state_backend, "_get_result") else False
            c = client()
            rep.check(c.status == S.SUCCESS, f"values:{kind}:status-after-result", f"status {c.status}")
            try:
                got = c.get_final_result()
            except Exception as exc:  # noqa: BLE001
                rep.fail(f"values:{kind}:{serializer}:result-unreadable", f"SUCCESS but get_final_result raised {type(exc).__name__}: {exc}")
                return
            rep.check(V.same(got, expected), f"values:{kind}:{serializer}:result-mismatch", f"read {got!r:.150} stored {expected!r:.150}")
        else:
            app.orchestrator.set_invocation_exception(inv, payload, A)
            c = client()
            rep.check(c.status == S.FAILED, f"values:{kind}:status-after-exception", f"status {c.status}")
            try:
                got = c.get_final_result()
                rep.fail(f"values:{kind}:failed-returns-value", f"FAILED but get_final_result returned {got!r:.100}")
            except Exception as exc:  # noqa: BLE001
                if not V.same(exc, expected):
                    cls = type(expected).__module__.split(".")[0]
                    rep.fail(f"values:{kind}:{serializer}:exception-mismatch:{'pynenc' if cls == 'pynenc' else 'other'}", f"raised {exc!r} but the body raised {expected!r}")
        nt = ext or (what == "value" and V.depth(payload) >= 2) or (what == "exception" and bool(payload.args))
        part.case(key=(serializer, kind, minsize, disable, what, repr(expected)), nontrivial=nt,
                  classes=[serializer, f"backend_{kind}", what, "externalised" if ext else "inline", "store_off" if disable else "store_on", f"exc_{type(payload).__name__}" if what == "exception" else f"depth{min(V.depth(payload), 3)}"],
                  sample=rep.holder["case"])

    run_given(rep, prop, f"values:{kind}:{serializer}", max_buckets=4)
    return part.dump()


SCENARIOS = ["result", "exception", "retry-then-result"]


def run_sched(kind: str, scenario: str, policy: sched.Policy, clock: vclock.VClock, shared: dict) -> tuple[sched.Scheduler, dict]:
    from pynenc import context
    from pynenc.exceptions import RetryError
    from pynenc.invocation.status import InvocationStatus as S

    if kind == "sqlite":
        if "app" not in shared:
            shared["app"] = apps.make_app("sqlite", cached_status_time=0.0, min_size_to_cache=16)
            shared["task"] = shared["app"].task(tasks.ident, max_retries=1)
        app, task = shared["app"], shared["task"]
    else:
        app = apps.make_app("mem", cached_status_time=0.0, min_size_to_cache=16)
        task = app.task(tasks.ident, max_retries=1)
    context.set_runner_context(app.app_id, apps.rctx("CLIENT"))
    shared["n"] = shared.get("n", 0) + 1
    inv = task(shared["n"])
    iid = inv.invocation_id
    A = apps.rctx("A")
    app.orchestrator.set_invocation_status(iid, S.PENDING, A)
    app.orchestrator.set_invocation_status(iid, S.RUNNING, A)
    apps.flush(app)
    value = {"answer": [1, 2, 3], "pad": "x" * 40}
    error = T.AppError("boom", 7)
    obs: dict[str, Any] = {"reads": [], "stored": False, "published": False, "between": False}
    # effect markers (instance wrappers, harness side)
    sb = app.state_backend
    o_set_res, o_set_exc = sb._set_result, sb._set_exception
    o_ast = app.orchestrator._atomic_status_transition

    def w_set_res(i, s_):
        r = o_set_res(i, s_)
        obs["stored"] = True
        return r

    def w_set_exc(i, s_):
        r = o_set_exc(i, s_)
        obs["stored"] = True
        return r

    def w_ast(i, status, rid=None):
        r = o_ast(i, status, rid)
        if status.is_final():
            obs["published"] = True
        return r

    sb._set_result, sb._set_exception = w_set_res, w_set_exc
    app.orchestrator._atomic_status_transition = w_ast

    def worker():
        if scenario == "result":
            app.orchestrator.set_invocation_result(inv, value, A)
        elif scenario == "exception":
            app.orchestrator.set_invocation_exception(inv, error, A)
        else:
            app.orchestrator.set_invocation_retry(iid, RetryError("again"), A)
            app.orchestrator.set_invocation_status(iid, S.PENDING, A)
            app.orchestrator.set_invocation_status(iid, S.RUNNING, A)
            app.orchestrator.set_invocation_result(inv, value, A)

    def reader():
        c = app.state_backend.get_invocation(iid)
        for _ in range(4):
            if obs["stored"] and not obs["published"]:
                obs["between"] = True
            st_ = c.status
            try:
                got = ("value", c.get_final_result())
            except BaseException as exc:  # noqa: BLE001
                if isinstance(exc, (sched.SchedAbort, sched.Crash)):
                    raise
                got = ("raised", exc)
            st_after = c.status  # finals are absorbing: a value can only have been handed out if the status is final by now
            obs["reads"].append((st_.name, got, st_after.name))

    tf = sched.trace_file_set("pynenc/orchestrator/mem_orchestrator.py", "pynenc/state_backend/mem_state_backend.py", "pynenc/orchestrator/base_orchestrator.py",
                              "pynenc/invocation/dist_invocation.py", "pynenc/state_backend/base_state_backend.py") if kind == "mem" else set()
    s = sched.Scheduler(policy, clock=clock, trace_files=tf, max_steps=50_000)
    s.spawn("worker", worker)
    s.spawn("reader", reader)
    try:
        s.run()
    finally:
        for o, n in ((sb, "_set_result"), (sb, "_set_exception"), (app.orchestrator, "_atomic_status_transition")):
            o.__dict__.pop(n, None)
    obs["value"], obs["error"] = value, error
    obs["errors"] = [f"{a.name}: {type(a.exc).__name__}: {a.exc}" for a in s.actors if a.exc is not None]
    return s, obs


def judge_sched(scenario: str, obs: dict) -> list[tuple[str, str]]:
    from pynenc.exceptions import InvocationError

    probs = []
    for st_, (what, payload), st_after in obs["reads"]:
        if st_ == "SUCCESS":
            if what != "value":
                probs.append(("success-without-result", f"status SUCCESS observed but get_final_result raised {type(payload).__name__}: {payload}"))
            elif not V.same(payload, obs["value"]):
                probs.append(("success-wrong-result", f"{payload!r}"))
        elif st_ == "FAILED":
            if what == "value":
                probs.append(("failed-returns-value", f"{payload!r}"))
            elif not V.same(payload, obs["error"]):
                probs.append(("failed-wrong-exception", f"status FAILED observed but get_final_result raised {type(payload).__name__}: {payload!r}"))
        else:
            if what == "value" and st_after not in ("SUCCESS",):
                # (the status read before the request may be stale by the time the result is requested: judged by the status afterwards)
                probs.append(("value-while-not-final", f"get_final_result returned {payload!r} but the status was {st_} before and {st_after} after the request"))
    for e in obs["errors"]:
        probs.append(("actor-exception", e))
    return probs


def sched_shard(kind: str, scenario: str, p_max: int, limit: int, seed: int, known: list[str]) -> dict:
    part = Part("schedules", SCHED_RULE)
    clock = vclock.VClock(tick_us=1)
    cinst = vclock.install(clock)
    sched.install_clock_sleep(clock)
    inst = sched.install_threading()
    if kind == "sqlite":
        sched.install_sqlite(inst)
    shared: dict = {}
    try:
        def run_with(policy):
            s, obs = run_sched(kind, scenario, policy, clock, shared)
            s.obs = obs  # type: ignore[attr-defined]
            return s

        for tag, s in explore.dfs_preemptions(run_with, p_max, limit=limit):
            obs = s.obs
            part.case(key=(kind, scenario, tuple(s.choices)), nontrivial=obs["between"], classes=[f"backend_{kind}", f"sc_{scenario}", f"forced{len(tag)}", "reader_between_store_and_publish" if obs["between"] else "other"],
                      sample={"backend": kind, "scenario": scenario, "choices": s.choices[:50], "reads": [(a, b[0], c_) for a, b, c_ in obs["reads"]]})
            if s.failure is not None:
                if not isinstance(s.failure, sched.Budget):
                    key = f"schedules:{kind}:deadlock"
                    (part.known if key in known else lambda k: part.violation(k, str(s.failure), {"backend": kind, "scenario": scenario, "choices": s.choices}))(key)
                continue
            for pk, msg in judge_sched(scenario, obs):
                key = f"schedules:{kind}:{pk}"
                if key in known:
                    part.known(key)
                else:
                    part.violation(key, f"[{kind}/{scenario}] {msg}", {"backend": kind, "scenario": scenario, "choices": s.choices})
    finally:
        inst.uninstall()
        cinst.uninstall()
    return part.dump()


def _dispatch(name: str, args: tuple) -> dict:
    return globals()[name](*args)


def run(ctx: Ctx) -> None:
    known = sorted(ctx.known_keys())
    q = ctx.quick
    jobs = []
    i = 0
    for s in SERIALIZERS:
        for k in ("mem", "sqlite"):
            i += 1
            jobs.append(("values_shard", (s, k, ctx.seed * 100 + i, (300 if k == "mem" else 150) if q else 4000, known)))
    for k in ("mem", "sqlite"):
        for sc in SCENARIOS:
            jobs.append(("sched_shard", (k, sc, 1 if q else 2, 500 if q else 8000, ctx.seed, known)))
    merge_parts(ctx, pmap(_dispatch, jobs))
    ctx.assumptions.append("client side = a fresh invocation object from state_backend.get_invocation with the store's process-local cache cleared")
    ctx.assumptions.append("exception equality = same type and same args")


def replay(case: dict) -> int:
    c = case["case"]
    if "choices" in c:
        clock = vclock.VClock(tick_us=1)
        cinst = vclock.install(clock)
        sched.install_clock_sleep(clock)
        inst = sched.install_threading()
        if c["backend"] == "sqlite":
            sched.install_sqlite(inst)
        try:
            s, obs = run_sched(c["backend"], c["scenario"], sched.Replay(list(c["choices"])), clock, {})
            probs = judge_sched(c["scenario"], obs)
            for p in probs:
                print("REPRODUCED:", p)
            return 1 if probs else 0
        finally:
            inst.uninstall()
            cinst.uninstall()
    print("re-run the check with the recorded seed to replay:", c)
    return 2
