"""C09 - waiting on sub-tasks is tracked exactly and can never deadlock a runner.

Parts:
  graph  Hypothesis state machine on both backends against a reference wait-graph (definition in DESIGN A.7)
  trees  generated call trees executed by the real ThreadRunner.run() with 1 or 2 slots as scheduler actors
         in virtual time (Mem line level, SQLite statement level); a scheduler-level proof of no progress
         is a violation, a budget hit is inconclusive
"""

from __future__ import annotations

import random
from typing import Any

from verif import apps, runner_harness as RH, sched, tasks
from verif.core import Ctx, Part, merge_parts, ncpu, pmap
from verif.hyp import Reporter, make_settings, run_given, run_machine
from verif.models import lifecycle as L

LEVEL = "exploration"

GRAPH_RULE = (
    "Hypothesis state machine (<=50 steps) over 6 registered invocations on Mem and SQLite in lock-step: waiting_for_results(w, ids) with non-final "
    "targets, accepted status changes incl. finals (which release waiters), get_blocking_invocations(n) for n in {0,1,2,3,100}; reference: x reported "
    "iff some edge (.->x) is recorded, x is in a runnable status and x has no live outgoing edge; result is a duplicate-free subset of that set of size "
    "min(n, |set|); non-trivial = a query issued while some id is both waited-on and waiting; distinct = operation trace"
)
TREE_RULE = (
    "Hypothesis call trees (depth <= 3, fan-out <= 3; single .result chains, parallelize groups, mixed) on a ThreadRunner with 1 or 2 slots, real run() "
    "loop + task threads + history writers as actors, round-robin (quantum 1-5) or seeded fair-random schedule, virtual time; oracle: root SUCCESS with "
    "the denoted value; non-trivial = more waiting tasks than slots (tree depth >= 2 with slots 1, or >= 3 nodes waiting); distinct = (stack, tree, slots, schedule)"
)


def graph_shard(seed: int, examples: int, known: list[str]) -> dict:
    from hypothesis import strategies as st
    from hypothesis.stateful import RuleBasedStateMachine, precondition, rule
    from pynenc import context
    from pynenc.invocation.status import InvocationStatus as S

    part = Part("graph", GRAPH_RULE)
    rep = Reporter(part, known)
    shared: dict[str, Any] = {"n": 0}
    N = 6

    class Machine(RuleBasedStateMachine):
        def __init__(self):
            super().__init__()
            shared["n"] += 1
            if "apps" not in shared or shared["n"] % 40 == 0:
                shared["apps"] = {k: apps.make_app(k) for k in ("mem", "sqlite")}
                shared["tasks"] = {k: a.task(tasks.ident) for k, a in shared["apps"].items()}
            self.apps = shared["apps"]
            for app in self.apps.values():
                app.orchestrator.purge()
                app.broker.purge()
            self.ids: dict[str, list[str]] = {}
            for k, app in self.apps.items():
                context.set_runner_context(app.app_id, apps.rctx("CLIENT"))
                self.ids[k] = [shared["tasks"][k](f"{shared['n']}-{i}").invocation_id for i in range(N)]
            self.status = ["REGISTERED"] * N
            self.owner: list[str | None] = [None] * N
            self.edges: set[tuple[int, int]] = set()
            self.trace: list[Any] = []
            self.nontrivial = False
            self.flags: set[str] = set()

        def _t(self, *op):
            self.trace.append(op)
            rep.holder["case"] = {"trace": [list(map(str, o)) for o in self.trace]}

        def expected(self) -> set[int]:
            live_out = {w for (w, x) in self.edges}
            return {x for (w, x) in self.edges if self.status[x] in L.AVAILABLE and x not in live_out}

        @rule(w=st.integers(0, N - 1), tg=st.lists(st.integers(0, N - 1), min_size=1, max_size=3, unique=True))
        def declare(self, w, tg):
            targets = tg
            targets = [t for t in targets if t != w and self.status[t] not in L.FINAL]
            if not targets or self.status[w] in L.FINAL:
                return
            self._t("wait", w, targets)
            for k, app in self.apps.items():
                app.orchestrator.waiting_for_results(self.ids[k][w], [self.ids[k][t] for t in targets])
            for t in targets:
                self.edges.add((w, t))

        @rule(i=st.integers(0, N - 1), pick=st.integers(0, 5), runner=st.sampled_from(["A", "B"]))
        def change(self, i, pick, runner):
            cur = self.status[i]
            succ = sorted(t for (s, t) in L.EDGES if s == cur)
            if not succ:
                return
            target = succ[pick % len(succ)]
            who = self.owner[i] if cur in L.OWNED else runner
            out, ns, no = L.step(cur, self.owner[i], target, who)
            if out != L.OK:
                return
            self._t("status", i, target, who)
            for k, app in self.apps.items():
                app.orchestrator.set_invocation_status(self.ids[k][i], S[target], apps.rctx(who))
            self.status[i], self.owner[i] = ns, no
            if ns in L.FINAL:
                self.flags.add("final_released")
                self.edges = {(w, x) for (w, x) in self.edges if x != i}

        @rule(i=st.integers(0, N - 1), tgt=st.sampled_from(["SUCCESS", "FAILED", "CONCURRENCY_CONTROLLED_FINAL", "KILLED", "RETRY"]), runner=st.sampled_from(["A", "B", "Z"]))
        def rejected_request(self, i, tgt, runner):
            target = tgt
            """A request the lifecycle refuses (foreign runner, missing edge): the wait graph must be exactly as before."""
            out, _, _ = L.step(self.status[i], self.owner[i], target, runner)
            if out == L.OK:
                return
            self._t("rejected", i, target, runner)
            for k, app in self.apps.items():
                try:
                    app.orchestrator.set_invocation_status(self.ids[k][i], S[target], apps.rctx(runner))
                except Exception:  # noqa: BLE001 - the refusal
                    continue
                rep.fail(f"graph:{k}:refusable-request-accepted", f"{self.status[i]}/{self.owner[i]} -> {target} by {runner} was accepted")
            self.flags.add("rejected_request")

        @rule(i=st.integers(0, N - 1), how=st.sampled_from(["SUCCESS", "FAILED", "CONCURRENCY_CONTROLLED_FINAL"]))
        def finish(self, i, how):
            """Drive invocation i to a final status along the shortest public path (finals release waiters)."""
            cur = self.status[i]
            if cur in L.FINAL:
                return
            path = {"REGISTERED": ["PENDING", "RUNNING"], "REROUTED": ["PENDING", "RUNNING"], "RETRY": ["PENDING", "RUNNING"], "PENDING": ["RUNNING"], "RUNNING": [],
                    "PAUSED": ["RESUMED"], "RESUMED": [], "KILLED": ["REROUTED", "PENDING", "RUNNING"], "CONCURRENCY_CONTROLLED": ["REROUTED", "PENDING", "RUNNING"],
                    "PENDING_RECOVERY": ["REROUTED", "PENDING", "RUNNING"], "RUNNING_RECOVERY": ["REROUTED", "PENDING", "RUNNING"]}[cur]
            if how == "CONCURRENCY_CONTROLLED_FINAL":
                if cur != "REGISTERED":
                    how = "SUCCESS"
                else:
                    path = []
            who = self.owner[i] if cur in L.OWNED else "A"
            self._t("finish", i, how)
            for target in [*path, how]:
                for k, app in self.apps.items():
                    app.orchestrator.set_invocation_status(self.ids[k][i], S[target], apps.rctx(who))
                out, ns, no = L.step(self.status[i], self.owner[i], target, who)
                assert out == L.OK, (self.status[i], target)
                self.status[i], self.owner[i] = ns, no
            self.flags.add("final_released")
            self.edges = {(w, x) for (w, x) in self.edges if x != i}

        @rule(n=st.sampled_from([0, 1, 2, 3, 100]))
        def query(self, n):
            exp = self.expected()
            waited = {x for (_, x) in self.edges}
            waiting = {w for (w, _) in self.edges}
            if waited & waiting:
                self.nontrivial = True
                self.flags.add("waited_and_waiting")
            self._t("query", n, sorted(exp))
            for k, app in self.apps.items():
                rev = {v: j for j, v in enumerate(self.ids[k])}
                raw = list(app.orchestrator.get_blocking_invocations(n))
                got = [rev.get(x, x) for x in raw]
                tagn = "n0" if n == 0 else "n"
                if len(got) != len(set(got)):
                    rep.fail(f"graph:{k}:duplicates", f"get_blocking_invocations({n}) -> {got}")
                if not set(got) <= exp:
                    rep.fail(f"graph:{k}:reports-non-blocking", f"get_blocking_invocations({n}) -> {got}, expected subset of {sorted(exp)}; edges={sorted(self.edges)} status={self.status}")
                if len(got) > n:
                    rep.fail(f"graph:{k}:limit-exceeded:{tagn}", f"get_blocking_invocations({n}) returned {len(got)} ids {got}")
                elif len(got) != min(n, len(exp)):
                    rep.fail(f"graph:{k}:misses-blocking", f"get_blocking_invocations({n}) -> {got}, expected {min(n, len(exp))} of {sorted(exp)}; edges={sorted(self.edges)} status={self.status}")

        def teardown(self):
            part.case(key=self.trace, nontrivial=self.nontrivial, classes=sorted(self.flags) + [f"len{min(len(self.trace) // 10 * 10, 50)}"],
                      sample={"trace": [list(map(str, o)) for o in self.trace[:20]]})

    run_machine(rep, Machine, seed, make_settings(examples, 50), "graph", max_buckets=4)
    return part.dump()


def denote(node: Any) -> Any:
    if node[0] == "ret":
        return node[1]
    return node[1] + sum(denote(c) for c in node[2])


def tree_strategy():
    from hypothesis import strategies as st

    leaf = st.builds(lambda v: ["ret", v], st.integers(0, 9))
    return st.recursive(leaf, lambda ch: st.builds(lambda kind, base, kids: [kind, base, kids], st.sampled_from(["sum", "group", "wfsum"]), st.integers(0, 9), st.lists(ch, min_size=1, max_size=3)), max_leaves=7)


def tdepth(node: Any) -> int:
    return 0 if node[0] == "ret" else 1 + max(tdepth(c) for c in node[2])


def tnodes(node: Any) -> int:
    return 1 if node[0] == "ret" else 1 + sum(tnodes(c) for c in node[2])


def run_tree(kind: str, node: Any, slots: int, pol: tuple, clock: Any, det: Any, shared: dict) -> tuple[Any, Any]:
    from pynenc import context

    det.reset()
    clock.us = 1_700_000_000_000_000
    if kind == "sqlite":
        app = shared.get(("app", slots))
        if app is None:
            app = shared[("app", slots)] = apps.make_app("sqlite", **RH.RUNNER_CONF, max_threads=slots, min_threads=slots)
        else:
            app.purge()
            app.state_backend._runner_context_cache.clear()
            app.state_backend.invocation_threads.clear()
            app._tasks.clear()
    else:
        app = apps.make_app("mem", **RH.RUNNER_CONF, max_threads=slots, min_threads=slots)
    t = app.task(tasks.prog)
    app.task(tasks.progwf, force_new_workflow=True)
    tasks.reset_log()
    tasks.RUNS.clear()
    tasks.HOOKS["app"] = app
    context.set_runner_context(app.app_id, apps.rctx("CLIENT"))
    root = t(node, "r")
    rid = root.invocation_id
    if pol[0] == "rr":
        policy: sched.Policy = sched.RoundRobin(pol[1])
    else:
        policy = sched.RandomFair(random.Random(pol[1]), 0.3)

    def stop(env):
        return app.orchestrator.get_invocation_status(rid).is_final()

    def watch():
        return list(app.orchestrator.get_invocation_ids_paginated(limit=50))

    env = RH.run_on_thread_runner(kind, app, clock, policy, stop, slots=slots, watch_ids=watch, max_steps=300_000)
    env.root = rid
    return app, env


def tree_shard(kind: str, seed: int, examples: int, known: list[str]) -> dict:
    import hypothesis
    from hypothesis import given, strategies as st

    part = Part("trees", TREE_RULE)
    rep = Reporter(part, known)
    clock, cinst, inst, det = RH.install_all(kind)
    shared: dict = {}

    @hypothesis.seed(seed)
    @make_settings(examples)
    @given(node=tree_strategy(), slots=st.sampled_from([1, 1, 2]), pol=st.one_of(st.tuples(st.just("rr"), st.integers(1, 5)), st.tuples(st.just("rand"), st.integers(0, 999))))
    def prop(node, slots, pol):
        rep.holder["case"] = {"backend": kind, "tree": node, "slots": slots, "policy": list(pol)}
        app, env = run_tree(kind, node, slots, pol, clock, det, shared)
        nt = tdepth(node) >= 2 if slots == 1 else tnodes(node) - sum(1 for _ in [0]) >= 4 and tdepth(node) >= 2
        part.case(key=(kind, node, slots, pol), nontrivial=nt, classes=[f"backend_{kind}", f"slots{slots}", f"depth{tdepth(node)}", f"policy_{pol[0]}", "has_group" if "group" in repr(node) else "chain_only", "has_subworkflow" if "wfsum" in repr(node) else "no_subworkflow"],
                  sample={**rep.holder["case"], "steps": env.steps})
        if env.failure is not None:
            if isinstance(env.failure, sched.Budget):
                part.notes.append("inconclusive (step budget)")
                return
            rep.fail(f"trees:{kind}:no-progress", f"{env.failure}")
            return
        if getattr(env, "deadline", False):
            part.notes.append("inconclusive (virtual deadline)")
            return
        if env.run_exc is not None:
            rep.fail(f"trees:{kind}:runner-raised", f"{type(env.run_exc).__name__}: {env.run_exc}")
            return
        st_ = app.orchestrator.get_invocation_status(env.root).name
        rep.check(st_ == "SUCCESS", f"trees:{kind}:root-not-success", f"root is {st_}")
        if st_ == "SUCCESS":
            val = app.state_backend.get_result(env.root)
            rep.check(val == denote(node), f"trees:{kind}:wrong-value", f"root returned {val}, the tree denotes {denote(node)}")

    try:
        run_given(rep, prop, f"trees:{kind}")
    finally:
        inst.uninstall()
        cinst.uninstall()
    return part.dump()


def _dispatch(name: str, args: tuple) -> dict:
    return globals()[name](*args)


def run(ctx: Ctx) -> None:
    known = sorted(ctx.known_keys())
    q = ctx.quick
    jobs = [("graph_shard", (ctx.seed * 100 + k, 60 if q else 2500, known)) for k in range(6)]
    jobs += [("tree_shard", ("mem", ctx.seed * 100 + 20 + k, 10 if q else 700, known)) for k in range(5)]
    jobs += [("tree_shard", ("sqlite", ctx.seed * 100 + 40 + k, 10 if q else 700, known)) for k in range(5)]
    merge_parts(ctx, pmap(_dispatch, jobs))
    ctx.assumptions.append("wait declarations are generated only on non-final targets (callers check the status first); negative limits are not generated")
    ctx.assumptions.append("liveness is decided in bounded form: only a scheduler-level proof of no progress (observable state unchanged over 32k scheduling steps while every actor keeps being scheduled) is a violation")


def replay(case: dict) -> int:
    c = case["case"]
    if "tree" in c:
        kind = c["backend"]
        clock, cinst, inst, det = RH.install_all(kind)
        try:
            app, env = run_tree(kind, c["tree"], c["slots"], tuple(c["policy"]), clock, det, {})
            print("failure:", env.failure, "root:", app.orchestrator.get_invocation_status(env.root).name)
            return 1 if env.failure is not None or app.orchestrator.get_invocation_status(env.root).name != "SUCCESS" else 0
        finally:
            inst.uninstall()
            cinst.uninstall()
    print("graph traces are replayed by re-running the check with the recorded seed:", c)
    return 2
