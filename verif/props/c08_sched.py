"""C08 concurrent part: retrievers / routers as detsched actors on one broker.

SQLite: statement-level interleavings (every execute / commit is a yield point).
Mem: line-level interleavings of mem_broker.py.
"""

from __future__ import annotations

from collections import Counter
from typing import Any

from verif import apps, explore, sched
from verif.core import Ctx, Part, merge_parts, ncpu, pmap

SCHED_RULE = (
    "scenarios = (backend, pre-filled queue incl. repeated ids, 2-3 actors each a list of retrieve/route ops); schedules: bounded-preemption DFS "
    "(all schedules with <= p forced switches) for 2 actors, PCT/random for 3; non-trivial = a schedule with >=1 forced switch in which two "
    "actors' broker operations overlap (a switch happened while an actor was inside an operation); distinct = (scenario, choice list)"
)

SCENARIOS = [
    {"prefill": ["a", "b", "a", "c"], "actors": [["R", "R"], ["R", "R"]]},
    {"prefill": ["a", "b"], "actors": [["R", "R"], ["R"]]},
    {"prefill": ["a"], "actors": [["R"], ["R"]]},
    {"prefill": ["a", "a", "b"], "actors": [["R", "P:x", "R"], ["R", "R"]]},
    {"prefill": ["a", "b", "c"], "actors": [["P:x", "P:y"], ["R", "R", "R", "R"]]},
    {"prefill": [], "actors": [["P:x", "P:y", "R"], ["P:z", "R"]]},
    {"prefill": ["a", "b", "c", "a"], "actors": [["R", "R"], ["R", "R"], ["P:x", "R"]]},
    {"prefill": ["a", "b", "c"], "actors": [["B:x,y,x"], ["R", "R", "R"]]},
]


def run_scenario(kind: str, sc_def: dict, policy: sched.Policy, shared: dict) -> tuple[sched.Scheduler, dict]:
    app = shared.get("app")
    if app is None:
        app = shared["app"] = apps.make_app(kind)
    b = app.broker
    b.purge()
    # message identity: position in routing order per source
    for i in sc_def["prefill"]:
        b.route_invocation(i)
    got: dict[int, list[Any]] = {k: [] for k in range(len(sc_def["actors"]))}
    routed: list[tuple[int, str]] = []
    in_op = {"n": 0, "overlap": False}

    def actor(k: int, ops: list[str]):
        def f():
            for op in ops:
                in_op["n"] += 1
                if op == "R":
                    got[k].append(b.retrieve_invocation())
                elif op.startswith("P:"):
                    b.route_invocation(op[2:])
                    routed.append((k, op[2:]))
                elif op.startswith("B:"):
                    ids = op[2:].split(",")
                    b.route_invocations(ids)
                    routed.extend((k, i) for i in ids)
                in_op["n"] -= 1
        return f

    tf = sched.trace_file_set("pynenc/broker/mem_broker.py") if kind == "mem" else set()
    s = sched.Scheduler(policy, trace_files=tf, max_steps=20_000)

    def on_step(sc, nxt):
        if in_op["n"] >= 2:
            in_op["overlap"] = True

    s.on_step = on_step
    for k, ops in enumerate(sc_def["actors"]):
        s.spawn(f"actor{k}", actor(k, ops))
    s.run()
    remaining = []
    if s.failure is None:
        while True:
            g = b.retrieve_invocation()
            if g is None:
                break
            remaining.append(g)
            if len(remaining) > 50:
                break
    out = {"got": got, "routed": routed, "remaining": remaining, "overlap": in_op["overlap"],
           "count_after": None, "errors": [repr(a.exc) for a in s.actors if a.exc is not None]}
    return s, out


def judge(sc_def: dict, out: dict) -> list[tuple[str, str]]:
    problems = []
    if out["errors"]:
        problems.append(("actor-exception", f"actor raised {out['errors']}"))
        return problems
    all_routed = Counter(sc_def["prefill"]) + Counter(i for _, i in out["routed"])
    all_got = Counter(x for seq in out["got"].values() for x in seq if x is not None)
    rest = Counter(out["remaining"])
    if all_got + rest != all_routed:
        extra = (all_got + rest) - all_routed
        lost = all_routed - (all_got + rest)
        if extra:
            problems.append(("delivered-twice", f"messages delivered more often than routed: {dict(extra)}"))
        if lost:
            problems.append(("message-lost", f"messages routed but neither delivered nor queued: {dict(lost)}"))
    # a retrieve may return None only if the queue could have been empty at that moment:
    # conservative check - None while strictly more messages were pre-filled than all retrieves in the run
    n_retrieves = sum(len(v) for v in out["got"].values())
    if n_retrieves <= len(sc_def["prefill"]) and any(x is None for seq in out["got"].values() for x in seq):
        problems.append(("spurious-empty", "retrieve returned None although the queue held enough pre-filled messages"))
    # per-retriever order among pre-filled messages with unique ids
    pre = sc_def["prefill"]
    uniq = [i for i in pre if pre.count(i) == 1 and all(i != r for _, r in out["routed"])]
    pos = {i: pre.index(i) for i in uniq}
    for k, seq in out["got"].items():
        idxs = [pos[x] for x in seq if x in pos]
        if idxs != sorted(idxs):
            problems.append(("order", f"actor {k} received pre-filled messages out of routing order: {seq}"))
    return problems


def sched_shard(kind: str, idx: int, p_max: int, pct_runs: int, seed: int, known: list[str]) -> dict:
    part = Part("schedules", SCHED_RULE)
    inst = sched.install_threading()
    if kind == "sqlite":
        sched.install_sqlite(inst)
    shared: dict = {}
    try:
        sc_def = SCENARIOS[idx]

        def run_with(policy):
            s, out = run_scenario(kind, sc_def, policy, shared)
            s.out = out  # type: ignore[attr-defined]
            return s

        nact = len(sc_def["actors"])
        if nact == 2:
            it = explore.dfs_preemptions(run_with, p_max, limit=6000)
            exhaustive = True
        else:
            it = explore.pct_runs(run_with, seed, pct_runs, depth=3, est_steps=60)
            exhaustive = False
        for tag, s in it:
            out = s.out
            forced = len(tag) if isinstance(tag, dict) else 1
            part.case(key=(kind, idx, tuple(s.choices)), nontrivial=bool(out["overlap"]) and forced >= 1,
                      classes=[f"backend_{kind}", f"scenario{idx}", f"forced{min(forced, 3)}", "overlap" if out["overlap"] else "serial"],
                      sample={"backend": kind, "scenario": sc_def, "choices": s.choices[:40], "got": out["got"], "remaining": out["remaining"]})
            if s.failure is not None:
                key = f"sched:{kind}:{type(s.failure).__name__}"
                if isinstance(s.failure, sched.Budget):
                    part.notes.append(f"inconclusive run (budget) scenario {idx}")
                    continue
                (part.known if key in known else lambda k: part.violation(k, str(s.failure), {"backend": kind, "scenario": sc_def, "choices": s.choices}))(key)
                continue
            for pk, msg in judge(sc_def, out):
                key = f"sched:{kind}:{pk}"
                if key in known:
                    part.known(key)
                else:
                    part.violation(key, f"{msg}; scenario={sc_def} got={out['got']} remaining={out['remaining']}",
                                   {"backend": kind, "scenario": sc_def, "choices": s.choices})
        part.exhaustive = exhaustive and None
    finally:
        inst.uninstall()
    return part.dump()


def run(ctx: Ctx) -> None:
    known = sorted(ctx.known_keys())
    p_max = 1 if ctx.quick else 2
    pct = 60 if ctx.quick else 1500
    jobs = []
    for kind in ("sqlite", "mem"):
        for idx in range(len(SCENARIOS)):
            jobs.append((kind, idx, p_max, pct, ctx.seed, known))
    merge_parts(ctx, pmap(sched_shard, jobs))
    ctx.parts["schedules"].rule += f" (p<={p_max}; PCT runs per 3-actor scenario={pct})"
    ctx.assumptions.append("schedule granularity: SQL statement / commit for SQLite, source line of mem_broker.py for Mem; preemption inside a statement or line is not modelled")


def replay_case(c: dict) -> int:
    inst = sched.install_threading()
    if c["backend"] == "sqlite":
        sched.install_sqlite(inst)
    try:
        s, out = run_scenario(c["backend"], c["scenario"], sched.Replay(list(c["choices"])), {})
        probs = judge(c["scenario"], out)
        for p in probs:
            print("REPRODUCED:", p)
        return 1 if probs or s.failure else 0
    finally:
        inst.uninstall()
