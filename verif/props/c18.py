"""C18 - workflow operations replay deterministically and never mix between workflows.

A generated history = several workflows of the same interpreter task (each a script of random / utc_now / uuid /
execute_task operations) x a plan of re-executions: retries in the same process (RetryError), recovery re-runs, a fresh
process image (new Pynenc / Task objects on the same SQLite file, thorough: a real sub-process), interleaved sequentially
or concurrently (scheduler actors) with executions for the other workflows.
Oracle: per workflow and operation kind the n-th value of every attempt equals the n-th value of the first attempt; an
identical sub-task call returns the same invocation on every attempt and exactly one child exists per (workflow, call);
children and values of different workflows are disjoint.
"""

from __future__ import annotations

import random
from collections import Counter
from typing import Any

from verif import apps, sched, tasks, vclock
from verif.core import Ctx, Part, merge_parts, ncpu, pmap
from verif.hyp import Reporter, make_settings, run_given

LEVEL = "exploration"

RULE = (
    "Hypothesis histories: 1-3 workflows of one task, scripts of <=6 operations (random, utc_now, uuid, execute_task(child, arg)), a schedule of "
    "executions (workflow index, kind in {retry in process, recovery re-run, fresh process image}) interleaved sequentially or run concurrently as "
    "scheduler actors, Mem and SQLite state backends; non-trivial = >=2 attempts of one workflow and another workflow of the same task executed in the "
    "same process in between or concurrently; distinct = (backend, scripts, execution plan)"
)


def script_strategy():
    from hypothesis import strategies as st

    op = st.one_of(st.just(["random"]), st.just(["time"]), st.just(["uuid"]), st.just(["uuid"]), st.tuples(st.just("task"), st.integers(0, 2)).map(list), st.just(["sub"]))
    return st.lists(op, min_size=1, max_size=6)


class World:
    def __init__(self, kind: str, db: str | None = None, app_id: str | None = None, child_reg: bool = False) -> None:
        from pynenc import context
        from pynenc.conf.config_task import ConcurrencyControlType as CC

        self.kind = kind
        self.child_reg = child_reg
        self.app = apps.make_app(kind, app_id=app_id, db=db, cached_status_time=0.0)
        self.task = self.app.task(tasks.wfprog, max_retries=12)
        self.sub = self.app.task(tasks.wfsub, max_retries=12, force_new_workflow=True)
        # optionally the sub-task collapses duplicate registrations (a second launch may be routed onto a pending invocation)
        self.child = self.app.task(tasks.wfchild, registration_concurrency=CC.TASK) if child_reg else self.app.task(tasks.wfchild)
        tasks.HOOKS["app"] = self.app
        context.set_runner_context(self.app.app_id, apps.rctx("CLIENT"))
        context.set_current_app(self.app)

    def fresh_image(self) -> "World":
        """New Pynenc / Task objects on the same storage (another process image)."""
        if self.kind != "sqlite":
            return self
        w = World.__new__(World)
        from pynenc import Pynenc, context

        from pynenc.conf.config_task import ConcurrencyControlType as CC

        w.kind = self.kind
        w.child_reg = self.child_reg
        Pynenc._clear_instances()
        w.app = Pynenc(config_values=dict(self.app.config_values))
        w.task = w.app.task(tasks.wfprog, max_retries=12)
        w.sub = w.app.task(tasks.wfsub, max_retries=12, force_new_workflow=True)
        w.child = w.app.task(tasks.wfchild, registration_concurrency=CC.TASK) if self.child_reg else w.app.task(tasks.wfchild)
        tasks.HOOKS["app"] = w.app
        context.set_current_app(w.app)
        return w


def execute(world: World, inv_id: str, how: str) -> None:
    """One body execution of the workflow's main invocation, the way a runner would do it."""
    from pynenc import context
    from pynenc.invocation.status import InvocationStatus as S

    app = world.app
    R = apps.rctx("R1")
    st_ = app.orchestrator.get_invocation_status(inv_id)
    if st_ == S.RUNNING or st_ == S.PENDING:
        # recovery re-run of an execution that "died": RUNNING -> RUNNING_RECOVERY -> REROUTED
        tgt = S.RUNNING_RECOVERY if st_ == S.RUNNING else S.PENDING_RECOVERY
        app.orchestrator.set_invocation_status(inv_id, tgt, apps.rctx("REC"))
        app.orchestrator.set_invocation_status(inv_id, S.REROUTED, apps.rctx("REC"))
    elif st_.is_final():
        return
    app.orchestrator.set_invocation_status(inv_id, S.PENDING, R)
    winv = app.state_backend.get_invocation(inv_id)
    tasks.HOOKS["app"] = app
    context.set_current_app(app)
    if how == "die":
        # the body runs but its runner dies before reporting: status stays RUNNING (re-run later by recovery)
        orig = app.orchestrator.set_invocation_result
        orig_retry = app.orchestrator.set_invocation_retry
        app.orchestrator.set_invocation_result = lambda *a, **k: None  # type: ignore[method-assign]
        app.orchestrator.set_invocation_retry = lambda *a, **k: None  # type: ignore[method-assign]
        try:
            winv.run(R)
        except Exception:  # noqa: BLE001 - run() re-raises task errors after recording them
            pass
        finally:
            app.orchestrator.__dict__.pop("set_invocation_result", None)
            app.orchestrator.__dict__.pop("set_invocation_retry", None)
    else:
        try:
            winv.run(R)
        except Exception:  # noqa: BLE001
            pass


def run_children(world: World) -> None:
    """Execute every sub-task invocation that is still REGISTERED (they leave REGISTERED)."""
    from pynenc.invocation.status import InvocationStatus as S

    app = world.app
    K = apps.rctx("K1")
    from pynenc import context

    tasks.HOOKS["app"] = app
    context.set_current_app(app)
    pending = list(app.orchestrator.get_task_invocation_ids(world.sub.task_id)) + list(app.orchestrator.get_task_invocation_ids(world.child.task_id))
    pending += [c for c in app.orchestrator.get_task_invocation_ids(world.child.task_id) if c not in pending]
    for cid in pending:
        if app.orchestrator.get_invocation_status(cid) == S.REGISTERED:
            app.orchestrator.set_invocation_status(cid, S.PENDING, K)
            try:
                app.state_backend.get_invocation(cid).run(K)
            except Exception:  # noqa: BLE001
                pass


def judge(scripts: list[Any], inv_ids: list[str], worlds: list[World]) -> list[tuple[str, str]]:
    probs: list[tuple[str, str]] = []
    app = worlds[-1].app
    by_inv: dict[str, list[dict]] = {}
    for e in tasks.WF_LOG:
        by_inv.setdefault(e["inv"], []).append(e)
    all_children: dict[str, set[str]] = {}
    firsts: dict[str, list] = {}
    for w, iid in enumerate(inv_ids):
        entries = sorted(by_inv.get(iid, []), key=lambda e: e["attempt"])
        if not entries:
            continue
        first = entries[0]["values"]
        firsts[iid] = first
        for e in entries[1:]:
            for n, (a, b) in enumerate(zip(first, e["values"])):
                if a != b:
                    kind = a[0]
                    probs.append((f"replay-differs:{kind}", f"workflow #{w}: operation {n} ({kind}) gave {b[-1]!r} on attempt {e['attempt']} but {a[-1]!r} on attempt 1"))
                    break
        kids = {v[2] for e in entries for v in e["values"] if v[0] == "task"} | {v[1] for e in entries for v in e["values"] if v[0] == "sub"}
        subs = {}
        for e in entries:
            subs.setdefault(e["attempt"], [v[1] for v in e["values"] if v[0] == "sub"])
        if len({tuple(x) for x in subs.values() if x} ) > 1:
            probs.append(("subtask-launched-twice", f"workflow #{w}: the sub-workflow launch returned different invocations over the attempts"))
        all_children[iid] = kids
        # exactly one child per identical call in this workflow
        per_call: dict[Any, set[str]] = {}
        for e in entries:
            for v in e["values"]:
                if v[0] == "task":
                    per_call.setdefault(v[1], set()).add(v[2])
        for arg, ids in per_call.items():
            if len(ids) != 1:
                probs.append(("subtask-launched-twice", f"workflow #{w}: execute_task(child, {arg}) returned {len(ids)} different invocations over the attempts"))
        # the state backend agrees: the workflow's sub-invocations of the child task
        stored = {str(i) for i in app.state_backend.get_child_invocations(iid)}
        if worlds[0].child_reg:
            continue  # the sub-task collapses duplicate registrations system-wide: children may be shared by design
        if kids and not kids <= stored:
            probs.append(("child-not-stored", f"workflow #{w}: children {sorted(kids - stored)} not recorded as children of the workflow invocation"))
        extra = {i for i in stored if i not in kids}
        if extra:
            probs.append(("subtask-launched-twice", f"workflow #{w}: {len(extra)} child invocation(s) exist that no attempt got back from execute_task"))
    # every logged workflow (sub-workflows included) has values of its own
    by_wf: dict[str, dict[str, set]] = {}
    for e in tasks.WF_LOG:
        d = by_wf.setdefault(e["wf"], {"uuid": set(), "random": set(), "task": set()})
        for v in e["values"]:
            if v[0] in ("uuid", "random"):
                d[v[0]].add(v[1])
            elif v[0] == "task" and not worlds[0].child_reg:
                d["task"].add(v[2])
    wfs = sorted(by_wf)
    for i in range(len(wfs)):
        for j in range(i + 1, len(wfs)):
            for what in ("uuid", "random", "task"):
                if by_wf[wfs[i]][what] & by_wf[wfs[j]][what]:
                    probs.append((f"workflows-share-{'child' if what == 'task' else what}", f"two workflows (ids {wfs[i][:8]}, {wfs[j][:8]}; a sub-workflow counts as one) produced the same deterministic {what}"))
    # different workflows never share children or uuids
    ids = list(all_children)
    for i in range(len(ids)):
        for j in range(i + 1, len(ids)):
            if all_children[ids[i]] & all_children[ids[j]] and not worlds[0].child_reg:
                probs.append(("workflows-share-child", f"workflows {i} and {j} got the same child invocation back"))
            ua = {v[1] for v in firsts.get(ids[i], []) if v[0] == "uuid"}
            ub = {v[1] for v in firsts.get(ids[j], []) if v[0] == "uuid"}
            if ua & ub:
                probs.append(("workflows-share-uuid", f"workflows {i} and {j} produced the same deterministic uuid"))
    return probs


def shard(kind: str, seed: int, examples: int, concurrent: bool, known: list[str]) -> dict:
    import hypothesis
    from hypothesis import given, strategies as st

    part = Part("histories", RULE)
    rep = Reporter(part, known)
    clock = vclock.VClock(tick_us=1)
    cinst = vclock.install(clock)
    sched.install_clock_sleep(clock)
    inst = sched.install_threading()
    if kind == "sqlite":
        sched.install_sqlite(inst)
    plan = st.lists(st.tuples(st.integers(0, 2), st.sampled_from(["retry", "retry", "die", "fresh", "kids"])), min_size=2, max_size=8)

    @hypothesis.seed(seed)
    @make_settings(examples)
    @given(scripts=st.lists(script_strategy(), min_size=1, max_size=3), plan=plan, sseed=st.integers(0, 999), child_reg=st.booleans())
    def prop(scripts, plan, sseed, child_reg):
        tasks.reset_log()
        tasks.WF_LOG.clear()
        tasks.WF_ATTEMPTS.clear()
        world = World(kind, child_reg=child_reg)
        worlds = [world]
        nwf = len(scripts)
        # every workflow fails (RetryError) on its first attempts so that "retry" steps re-execute the body
        fail_until = [sum(1 for w, how in plan if w % nwf == i and how == "retry") for i in range(nwf)]
        invs = [world.task(s, f"wf{i}", fail_until[i]) for i, s in enumerate(scripts)]
        inv_ids = [str(i.invocation_id) for i in invs]
        rep.holder["case"] = {"backend": kind, "scripts": scripts, "plan": [list(p) for p in plan], "concurrent": concurrent, "sseed": sseed, "child_registration_concurrency": child_reg}
        executed: Counter = Counter()
        if not concurrent:
            for w, how in plan:
                w = w % nwf
                if how == "kids":
                    run_children(world)
                    continue
                if how == "fresh":
                    world = world.fresh_image()
                    worlds.append(world)
                    how = "retry"
                execute(world, inv_ids[w], how)
                executed[w] += 1
            # make sure every workflow ran at least twice
            for w in range(nwf):
                while executed[w] < 2:
                    execute(world, inv_ids[w], "retry")
                    executed[w] += 1
        else:
            tf = sched.trace_file_set("pynenc/workflow/workflow_deterministic.py", "pynenc/workflow/workflow_context.py") if kind == "mem" else set()
            for round_ in range(2):
                s = sched.Scheduler(sched.RandomFair(random.Random(sseed + round_), 0.3), clock=clock, trace_files=tf, max_steps=100_000)
                tasks.HOOKS["wf_pause"] = lambda: s.yield_point("wf-op")
                for w in range(nwf):
                    s.spawn(f"wf{w}", lambda w=w: execute(world, inv_ids[w], "retry"))
                    executed[w] += 1
                s.run()
                tasks.HOOKS.pop("wf_pause", None)
                if s.failure is not None:
                    part.notes.append(f"inconclusive concurrent run: {s.failure}")
                    return
        attempts = Counter(e["inv"] for e in tasks.WF_LOG)
        multi = any(n >= 2 for n in attempts.values())
        nt = multi and nwf >= 2
        part.case(key=(kind, scripts, plan, concurrent, sseed if concurrent else 0), nontrivial=nt,
                  classes=[f"backend_{kind}", "concurrent" if concurrent else "sequential", f"workflows{nwf}", "fresh_image" if len(worlds) > 1 else "one_image",
                           "has_subtask" if any(op[0] == "task" for sc in scripts for op in sc) else "no_subtask", "child_collapses" if child_reg else "child_plain"],
                  sample={**rep.holder["case"], "attempts": dict(attempts)})
        for pk, msg in judge(scripts, inv_ids, worlds):
            rep.fail(f"histories:{pk}", f"[{kind}{'/concurrent' if concurrent else ''}] {msg}")

    try:
        run_given(rep, prop, f"histories:{kind}", max_buckets=5)
    finally:
        inst.uninstall()
        cinst.uninstall()
    return part.dump()


PROC_RULE = (
    "a real second process (sub-process, PYTHONHASHSEED different from the parent's) re-executes the workflow body on the same SQLite file after the "
    "first execution died, once with the recorded values visible (replay) and once with the random/uuid/time records removed (both executions generated "
    "before either stored: the recovery-while-alive race); non-trivial = every case; distinct = (script, hash seed, records visible)"
)

_CHILD = """
import json, logging, sys
logging.disable(logging.CRITICAL)
from verif import tasks
from verif.props import c18
cfg = json.loads(sys.argv[1])
w = c18.World('sqlite', db=cfg['db'], app_id=cfg['app_id'])
c18.execute(w, cfg['inv'], 'retry')
print('WFLOG=' + json.dumps(tasks.WF_LOG))
"""


def process_shard(seed: int, known: list[str]) -> dict:
    import json
    import os
    import subprocess
    import sys

    from verif import whitebox

    part = Part("process", PROC_RULE)
    scripts = [[["random"], ["uuid"], ["time"], ["random"], ["task", 1]], [["uuid"], ["uuid"], ["random"]]]
    n = 0
    for script in scripts:
        for visible in (True, False):
            n += 1
            tasks.WF_LOG.clear()
            tasks.WF_ATTEMPTS.clear()
            world = World("sqlite")
            inv = world.task(script, "p", 0)
            iid = str(inv.invocation_id)
            execute(world, iid, "die")
            first = [e for e in tasks.WF_LOG if e["inv"] == iid][0]["values"]
            sb = world.app.state_backend
            if not visible:
                whitebox.sql(sb, f"DELETE FROM {sb.tables.WORKFLOW_DATA} WHERE data_key LIKE 'random:%' OR data_key LIKE 'uuid:%' OR data_key LIKE 'time:%'")
            env = dict(os.environ)
            hs = str(1000 + seed * 10 + n)
            env["PYTHONHASHSEED"] = hs
            cfg = {"db": sb.sqlite_db_path, "app_id": world.app.app_id, "inv": iid}
            out = subprocess.run([sys.executable, "-c", _CHILD, json.dumps(cfg)], env=env, capture_output=True, text=True, timeout=120)
            line = [x for x in out.stdout.splitlines() if x.startswith("WFLOG=")]
            case = {"script": script, "hashseed": hs, "records_visible": visible}
            part.case(key=(script, hs, visible), nontrivial=True, classes=["records_visible" if visible else "records_removed"], sample=case)
            if not line:
                part.notes.append("sub-process produced no log: " + out.stderr[-200:])
                continue
            second = json.loads(line[0][6:])
            vals = [tuple(v) for e in second if e["inv"] == iid for v in e["values"]]
            for k, (a, b) in enumerate(zip(first, vals)):
                if tuple(a) != tuple(b):
                    key = f"process:replay-differs:{a[0]}:{'visible' if visible else 'regenerated'}"
                    (part.known if key in known else lambda kk: part.violation(kk, f"operation {k} ({a[0]}) gave {b[-1]!r} in the second process but {a[-1]!r} in the first (records visible: {visible})", case))(key)
                    break
    return part.dump()


def run(ctx: Ctx) -> None:
    known = sorted(ctx.known_keys())
    q = ctx.quick
    jobs = []
    for k in range(4):
        jobs.append(("mem", ctx.seed * 100 + k, 120 if q else 4000, False, known))
        jobs.append(("sqlite", ctx.seed * 100 + 10 + k, 40 if q else 1300, False, known))
    for k in range(3):
        jobs.append(("mem", ctx.seed * 100 + 20 + k, 50 if q else 2000, True, known))
        jobs.append(("sqlite", ctx.seed * 100 + 30 + k, 25 if q else 1000, True, known))
    merge_parts(ctx, pmap(shard, jobs))
    merge_parts(ctx, pmap(process_shard, [(ctx.seed, known)] if q else [(ctx.seed + k, known) for k in range(4)]))
    ctx.assumptions.append("a body execution = set PENDING, load a new invocation object from the state backend, DistributedInvocation.run(runner ctx) - what every runner does; 'die' leaves the status RUNNING and the next execution goes through RUNNING_RECOVERY/REROUTED")
    ctx.assumptions.append("a fresh process image = new Pynenc and Task objects on the same SQLite file; values observed by the body are logged harness-side")


def replay(case: dict) -> int:
    print("re-run the check with the recorded seed to replay:", case["case"])
    return 2
