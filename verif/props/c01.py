"""C01 - lifecycle state machine, finals absorbing, rejected requests change nothing.

Parts:
  table      exhaustive (status|absent, owner) x (request, requester) on Mem and SQLite
  sequences  exhaustive request sequences (reduced alphabet) on both backends
  machine    Hypothesis RuleBasedStateMachine, both backends in lock-step with the model
Oracle: verif.models.lifecycle (does not import pynenc.invocation.status).
"""

from __future__ import annotations

import itertools
from typing import Any

from verif import apps, tasks, whitebox
from verif.core import Ctx, Part, merge_parts, pmap, ncpu
from verif.models import lifecycle as L


_PARENT = None


def worker_ctx(runner_id: str):
    """Requesters are worker contexts nested under one common parent runner (as the process runners create them):
    ownership must follow the worker's own id, never the shared root."""
    global _PARENT
    if _PARENT is None:
        _PARENT = apps.rctx("PARENT-RUNNER", "ParentRunner")
    return apps.rctx(runner_id, parent=_PARENT)


LEVEL = "exploration"

OWNERS = [None, "A", "B"]
TABLE_RULE = (
    "complete table (status in 14 + absent) x (owner none/A/B) x (request in 14) x (requester none/A/B) per backend; "
    "non-trivial = cell with an existing invocation; distinct = (backend, status, owner, request, requester)"
)
SEQ_RULE = (
    "all request sequences up to length L over 8 statuses x {A,B} from REGISTERED, per backend; "
    "non-trivial = sequence with >=1 accepted and >=1 rejected request"
)
MACH_RULE = (
    "Hypothesis state machine, 3 invocations, up to 60 requests, Mem+SQLite in lock-step with the model; "
    "non-trivial = history with >=1 accepted and >=1 rejected request and a final status reached"
)

# public path (list of (status, by_owner?)) that reaches an un-owned status with owner None
PATHS = {
    "REGISTERED": [],
    "PENDING": ["PENDING"],
    "RUNNING": ["PENDING", "RUNNING"],
    "PAUSED": ["PENDING", "RUNNING", "PAUSED"],
    "RESUMED": ["PENDING", "RUNNING", "PAUSED", "RESUMED"],
    "KILLED": ["PENDING", "KILLED"],
    "RETRY": ["PENDING", "RUNNING", "RETRY"],
    "SUCCESS": ["PENDING", "RUNNING", "SUCCESS"],
    "FAILED": ["PENDING", "RUNNING", "FAILED"],
    "REROUTED": ["PENDING", "REROUTED"],
    "CONCURRENCY_CONTROLLED": ["CONCURRENCY_CONTROLLED"],
    "CONCURRENCY_CONTROLLED_FINAL": ["CONCURRENCY_CONTROLLED_FINAL"],
    "PENDING_RECOVERY": ["PENDING", "PENDING_RECOVERY"],
    "RUNNING_RECOVERY": ["PENDING", "RUNNING", "RUNNING_RECOVERY"],
}


def _S():
    from pynenc.invocation.status import InvocationStatus

    return InvocationStatus


def classify(exc: BaseException | None) -> str:
    from pynenc.exceptions import InvocationStatusOwnershipError, InvocationStatusTransitionError

    if exc is None:
        return L.OK
    if isinstance(exc, InvocationStatusTransitionError):
        return L.TRANSITION_ERROR
    if isinstance(exc, InvocationStatusOwnershipError):
        return L.OWNERSHIP_ERROR
    return "other:" + type(exc).__name__


def request(app: Any, inv_id: str, target: str, requester: str | None) -> str:
    """Issue one status request; requester None goes through the base-class contract."""
    S = _S()
    try:
        if requester is None:
            app.orchestrator._atomic_status_transition(inv_id, S[target], None)
        else:
            app.orchestrator.set_invocation_status(inv_id, S[target], worker_ctx(requester))
    except Exception as exc:  # noqa: BLE001 - classified
        return classify(exc)
    return L.OK


def record(app: Any, inv_id: str):
    try:
        r = app.orchestrator.get_invocation_status_record(inv_id)
    except KeyError:
        return None
    return (r.status.name, r.runner_id, r.timestamp)


def counts(app: Any, statuses: list[str]) -> dict[str, int]:
    S = _S()
    out = {s: app.orchestrator.count_invocations(statuses=[S[s]]) for s in statuses}
    out["*"] = app.orchestrator.count_invocations()
    return out


def history_len(app: Any, inv_id: str) -> int:
    apps.flush(app)
    return len(app.state_backend.get_history(inv_id))


def install(app: Any, task: Any, status: str | None, owner: str | None, n: int) -> tuple[str, bool]:
    """Create a fresh invocation in (status, owner); returns (id, injected?)."""
    S = _S()
    if status is None:
        return (f"absent-{n}", False)
    inv = task(n)
    inv_id = inv.invocation_id
    injected = False
    owned = status in L.OWNED
    reachable = (owned and owner is not None) or (not owned and owner is None)
    if status == "REGISTERED":
        # the initial record stores the registering client's id; owner is a don't-care
        # for this un-owned status, install the requested value so every cell exists
        whitebox.inject_status(app, inv_id, S.REGISTERED, owner)
        return (inv_id, owner is not None)
    if reachable:
        actor = owner or "A"
        for st in PATHS[status]:
            app.orchestrator.set_invocation_status(inv_id, S[st], worker_ctx(actor))
    else:
        # take the public path first (so indexes / side tables look real), then fix the owner
        actor = owner or "A"
        for st in PATHS[status]:
            app.orchestrator.set_invocation_status(inv_id, S[st], worker_ctx(actor))
        whitebox.inject_status(app, inv_id, S[status], owner)
        injected = True
    return (inv_id, injected)


def table_shard(kind: str, cells: list[tuple[Any, Any, str, Any]], known: list[str]) -> tuple[dict, dict]:
    part = Part("table", TABLE_RULE, exhaustive=True)
    app = apps.make_app(kind)
    task = app.task(tasks.ident)
    results: dict[str, Any] = {}
    all_status = list(L.STATUSES)
    n = 0
    for status, owner, target, requester in cells:
        n += 1
        cell = (status, owner, target, requester)
        inv_id, injected = install(app, task, status, owner, n)
        before = record(app, inv_id)
        exp_out, exp_status, exp_owner = L.step(status, owner, target, requester)
        involved = all_status if kind == "mem" else sorted({s for s in (status, target, exp_status) if s})
        cnt_before = counts(app, involved)
        hist_before = history_len(app, inv_id) if status is not None else 0
        out = request(app, inv_id, target, requester)
        after = record(app, inv_id)
        cnt_after = counts(app, involved)
        hist_after = history_len(app, inv_id) if status is not None else 0
        problems = []
        if status is None:
            # base-class contract for unknown ids: raises, creates nothing unless REGISTERED requested
            if target != "REGISTERED":
                if out == L.OK:
                    problems.append(f"request on absent id accepted ({out})")
                if after is not None:
                    problems.append("request on absent id created a record")
            else:
                if out == L.OK and (after is None or after[0] != "REGISTERED"):
                    problems.append(f"absent->REGISTERED accepted but record is {after}")
                if after is not None and after[0] != "REGISTERED":
                    problems.append(f"absent->REGISTERED left record {after}")
        else:
            if out != exp_out:
                problems.append(f"outcome {out} expected {exp_out}")
            if exp_out == L.OK and out == L.OK:
                if after is None or (after[0], after[1]) != (exp_status, exp_owner):
                    problems.append(f"record after accept {after and after[:2]} expected {(exp_status, exp_owner)}")
                elif before and after[2] < before[2]:
                    problems.append("timestamp went backwards")
                if requester is not None and hist_after != hist_before + 1:
                    problems.append(f"history entries {hist_before}->{hist_after} after accepted public request")
                exp_cnt = dict(cnt_before)
                if status in exp_cnt and exp_status in exp_cnt and status != exp_status:
                    exp_cnt[status] -= 1
                    exp_cnt[exp_status] += 1
                if cnt_after != exp_cnt:
                    problems.append(f"status counts {cnt_before}->{cnt_after} expected {exp_cnt}")
            if out != L.OK:
                if after != before:
                    problems.append(f"rejected request changed the record {before} -> {after}")
                if cnt_after != cnt_before:
                    problems.append(f"rejected request changed status counts {cnt_before} -> {cnt_after}")
                if hist_after != hist_before:
                    problems.append(f"rejected request added history {hist_before}->{hist_after}")
        classes = [f"expected_{exp_out}", "injected" if injected else "public_path", f"backend_{kind}"]
        if status in L.FINAL:
            classes.append("from_final")
        part.case(key=(kind,) + cell, nontrivial=status is not None, classes=classes,
                  sample={"backend": kind, "cell": cell, "outcome": out, "record_after": after and after[:2]})
        results[repr(cell)] = {"out": out, "after": after and list(after[:2])}
        for p in problems:
            key = f"table:{kind}:{status}->{target}:{'owner' if status in L.OWNED else 'free'}"
            if key in known:
                part.known(key)
            else:
                part.violation(key, f"[{kind}] cell {cell}: {p}", {"backend": kind, "cell": cell, "problem": p})
    return part.dump(), results


SEQ_ALPHABET = ["PENDING", "RUNNING", "KILLED", "REROUTED", "RETRY", "SUCCESS", "PENDING_RECOVERY", "RUNNING_RECOVERY"]


def run_sequence(app: Any, task: Any, seq: list[tuple[str, str]], n: int) -> tuple[list[str], int, int]:
    """Run one sequence from a fresh REGISTERED invocation; returns (problems, accepted, rejected)."""
    inv = task(n)
    inv_id = inv.invocation_id
    status, owner = "REGISTERED", None
    observed = ["REGISTERED"]
    problems: list[str] = []
    acc = rej = 0
    r0 = record(app, inv_id)
    if r0 is None or r0[0] != "REGISTERED":
        problems.append(f"new invocation record is {r0}")
    last_ts = r0[2] if r0 else None
    for target, requester in seq:
        before = record(app, inv_id)
        exp_out, exp_status, exp_owner = L.step(status, owner if status != "REGISTERED" else before[1], target, requester)
        out = request(app, inv_id, target, requester)
        after = record(app, inv_id)
        if out != exp_out:
            problems.append(f"step {target}/{requester} from {status}/{owner}: outcome {out} expected {exp_out}")
            break
        if out == L.OK:
            acc += 1
            if (after[0], after[1]) != (exp_status, exp_owner):
                problems.append(f"step {target}/{requester}: record {after[:2]} expected {(exp_status, exp_owner)}")
                break
            if last_ts is not None and after[2] < last_ts:
                problems.append("timestamp went backwards")
            if (status, exp_status) not in L.EDGES:
                problems.append(f"observed change {status}->{exp_status} is not an edge")
            if status in L.FINAL:
                problems.append(f"final status {status} was left")
            status, owner, last_ts = exp_status, exp_owner, after[2]
            observed.append(status)
        else:
            rej += 1
            if after != before:
                problems.append(f"rejected {target}/{requester} changed record {before}->{after}")
                break
    # stored history must be the accepted path (all requests here are public calls)
    apps.flush(app)
    hist = sorted(app.state_backend.get_history(inv_id), key=lambda h: h.status_record.timestamp)
    hs = [h.status_record.status.name for h in hist]
    if hs != observed:
        problems.append(f"history {hs} != accepted path {observed}")
    return problems, acc, rej


def seq_shard(kind: str, length: int, first_syms: list[tuple[str, str]], known: list[str]) -> dict:
    part = Part("sequences", SEQ_RULE, exhaustive=True)
    app = apps.make_app(kind)
    task = app.task(tasks.ident)
    symbols = [(s, r) for s in SEQ_ALPHABET for r in ("A", "B")]
    n = 0
    for first in first_syms:
        for ln in range(1, length + 1):
            for rest in itertools.product(symbols, repeat=ln - 1):
                seq = [first, *rest]
                n += 1
                problems, acc, rej = run_sequence(app, task, seq, n)
                part.case(key=(kind, seq), nontrivial=acc >= 1 and rej >= 1,
                          classes=[f"len{ln}", f"backend_{kind}", f"accepted{min(acc, 3)}"],
                          sample={"backend": kind, "sequence": seq, "accepted": acc, "rejected": rej})
                for p in problems:
                    key = f"seq:{kind}:{p.split(':')[0][:40]}"
                    if key in known:
                        part.known(key)
                    else:
                        part.violation(key, f"[{kind}] sequence {seq}: {p}", {"backend": kind, "sequence": seq, "problem": p})
        if n % 2000 < 50 and kind == "mem":
            app.orchestrator.purge()
    return part.dump()


def machine_shard(seed: int, examples: int, steps: int, known: list[str]) -> dict:
    import hypothesis
    from hypothesis import HealthCheck, Phase, settings, strategies as st
    from hypothesis.stateful import RuleBasedStateMachine, initialize, invariant, rule, run_state_machine_as_test

    part = Part("machine", MACH_RULE)
    holder: dict[str, Any] = {}
    shared: dict[str, Any] = {}

    def get_apps():
        if "mem" not in shared or shared["count"] > 200:
            shared["mem"] = apps.make_app("mem")
            shared["sql"] = apps.make_app("sqlite")
            shared["tm"] = shared["mem"].task(tasks.ident)
            shared["ts"] = shared["sql"].task(tasks.ident)
            shared["count"] = 0
        shared["count"] += 1
        return shared

    class Machine(RuleBasedStateMachine):
        def __init__(self):
            super().__init__()
            sh = get_apps()
            self.mem, self.sql = sh["mem"], sh["sql"]
            self.ids = []
            self.model = []
            self.trace = []
            self.acc = self.rej = 0
            for i in range(3):
                a = sh["tm"](f"{shared['count']}-{i}")
                b = sh["ts"](f"{shared['count']}-{i}")
                self.ids.append((a.invocation_id, b.invocation_id))
                self.model.append(["REGISTERED", None])

        @rule(i=st.integers(0, 2), tgt=st.sampled_from(L.STATUSES), requester=st.sampled_from(["A", "B", "C"]))
        def req(self, i, tgt, requester):
            target = tgt
            status, owner = self.model[i]
            mid, sid = self.ids[i]
            bm, bs = record(self.mem, mid), record(self.sql, sid)
            reg_owner_m = bm[1] if status == "REGISTERED" else owner
            exp = L.step(status, reg_owner_m, target, requester)
            om = request(self.mem, mid, target, requester)
            os_ = request(self.sql, sid, target, requester)
            am, as_ = record(self.mem, mid), record(self.sql, sid)
            self.trace.append((i, target, requester, om, os_))
            holder["trace"] = list(self.trace)
            assert om == exp[0], f"mem outcome {om} expected {exp[0]} for {status}/{owner}->{target} by {requester}"
            assert os_ == exp[0], f"sqlite outcome {os_} expected {exp[0]} for {status}/{owner}->{target} by {requester}"
            if exp[0] == L.OK:
                self.acc += 1
                assert am[:2] == (exp[1], exp[2]), f"mem record {am[:2]} expected {exp[1:]}"
                assert as_[:2] == (exp[1], exp[2]), f"sqlite record {as_[:2]} expected {exp[1:]}"
                assert am[2] >= bm[2] and as_[2] >= bs[2], "timestamp went backwards"
                assert status not in L.FINAL, f"final {status} left"
                self.model[i] = [exp[1], exp[2]]
            else:
                self.rej += 1
                assert am == bm, f"mem rejected request changed record {bm}->{am}"
                assert as_ == bs, f"sqlite rejected request changed record {bs}->{as_}"

        def teardown(self):
            reached_final = any(m[0] in L.FINAL for m in self.model)
            part.case(key=self.trace, nontrivial=self.acc >= 1 and self.rej >= 1 and reached_final,
                      classes=[f"steps_{min(len(self.trace) // 10 * 10, 60)}", "final_reached" if reached_final else "no_final"],
                      sample={"trace": self.trace[:12], "model_end": self.model})

    sett = settings(max_examples=examples, stateful_step_count=steps, deadline=None, database=None,
                    report_multiple_bugs=False, suppress_health_check=list(HealthCheck),
                    phases=[Phase.generate, Phase.shrink], print_blob=False)
    try:
        run_state_machine_as_test(hypothesis.seed(seed)(Machine), settings=sett)
    except AssertionError as exc:
        msg = str(exc).split("\n")[0][:200]
        key = "machine:" + msg.split(" for ")[0][:60]
        if key in known:
            part.known(key)
        else:
            part.violation(key, msg, {"trace": holder.get("trace"), "seed": seed})
    return part.dump()


def run(ctx: Ctx) -> None:
    known = sorted(ctx.known_keys())
    svg = "/repo/docs/_static/invocation_state_machine.svg"
    try:
        doc_edges = {e for e in L.svg_edges(svg) if e[0] != "START"}
        if doc_edges != set(L.EDGES):
            ctx.assumptions.append(f"NOTE: SVG edges differ from the model: {sorted(doc_edges ^ set(L.EDGES))}")
        else:
            ctx.assumptions.append("model edge set equals the 27 data-edge attributes of the documented SVG")
    except OSError:
        ctx.assumptions.append("documented SVG not readable; model edges as written at design time")
    ctx.assumptions.append("requests with requester 'none' use BaseOrchestrator._atomic_status_transition(inv, status, None) (base-class contract); all others use set_invocation_status")
    ctx.assumptions.append("(status, owner) pairs no public path reaches are installed by whitebox.inject_status and labelled 'injected'")
    ctx.assumptions.append("absent-id row: oracle is the base-class contract (raises, creates nothing unless REGISTERED requested)")

    cells = [(s, o, t, r) for s in [None, *L.STATUSES] for o in OWNERS for t in L.STATUSES for r in OWNERS]
    nshard = max(1, ncpu() // 2)
    jobs = []
    for kind in ("mem", "sqlite"):
        for k in range(nshard):
            jobs.append((kind, cells[k::nshard], known))
    res = pmap(table_shard, jobs)
    merge_parts(ctx, [r[0] for r in res])
    # Mem and SQLite must agree cell by cell
    by_kind: dict[str, dict[str, Any]] = {"mem": {}, "sqlite": {}}
    for (kind, _, _), r in zip(jobs, res):
        by_kind[kind].update(r[1])
    tp = ctx.part("table", TABLE_RULE, True)
    for cell, m in by_kind["mem"].items():
        s = by_kind["sqlite"].get(cell)
        if cell.startswith("(None"):
            if s != m:
                tp.event("absent_row_backend_difference")
            continue
        if s != m:
            key = "table:backend-disagreement"
            if key in known:
                tp.known(key)
            else:
                tp.violation(key, f"cell {cell}: mem {m} sqlite {s}", {"cell": cell, "mem": m, "sqlite": s})

    length = 3 if ctx.quick else 4
    symbols = [(s, r) for s in SEQ_ALPHABET for r in ("A", "B")]
    jobs2 = []
    for kind in ("mem", "sqlite"):
        for sym in symbols:
            jobs2.append((kind, length, [sym], known))
    merge_parts(ctx, pmap(seq_shard, jobs2))
    ctx.parts["sequences"].rule += f" (L={length})"

    shards = ncpu()
    examples = 25 if ctx.quick else 300
    merge_parts(ctx, pmap(machine_shard, [(ctx.seed * 1000 + k, examples, 60, known) for k in range(shards)]))
    # the same lifecycle oracle over concurrent requests: the accepted-transition log of schedule-driven
    # executions (claims, kill-and-reroute, pending recovery, retry) must be a run of the model
    from verif.props import c02

    RACE_RULE = ("concurrent requests on one invocation (C02 scenarios single/dup/kill/recovery/retry) under every schedule with <= 1 forced switch "
                 "(thorough 2) + seeded random schedules; the log of accepted transitions replayed through the lifecycle model; non-trivial = schedule with a "
                 "forced switch inside a claim window or >= 5 changes on one invocation; distinct = (backend, scenario, choice list)")
    jobs3 = []
    for kind in ("mem", "sqlite"):
        for i, sc in enumerate(c02.SCENARIOS):
            if sc["name"] in ("single", "dup", "kill", "recovery", "retry"):
                jobs3.append((kind, i, "dfs", 1 if ctx.quick else 2, 150 if ctx.quick else 4000, ctx.seed, known, False, "races", RACE_RULE))
                jobs3.append((kind, i, "rand", 0, 25 if ctx.quick else 1000, ctx.seed + 5, known, False, "races", RACE_RULE))
                jobs3.append((kind, i, "pct", 0, 60 if ctx.quick else 2000, ctx.seed + 9, known, False, "races", RACE_RULE))
    merge_parts(ctx, pmap(c02.shard, jobs3))


def replay(case: dict) -> int:
    c = case["case"]
    if "cell" in c:
        cell = tuple(c["cell"])
        d, _ = table_shard(c["backend"], [cell], [])
        bad = d["violations"]
    elif "sequence" in c:
        app = apps.make_app(c["backend"])
        task = app.task(tasks.ident)
        problems, _, _ = run_sequence(app, task, [tuple(x) for x in c["sequence"]], 1)
        bad = problems
    else:
        print("machine traces are replayed by re-running the check with the recorded seed")
        return 2
    for b in bad:
        print("REPRODUCED:", b)
    return 1 if bad else 0
