"""C13 - a satisfied trigger condition launches its task exactly once.

Parts:
  semantics  trigger configurations x histories of occurrences (several pending at once) x loop iterations, Mem and
             SQLite stores against a reference model of pending occurrences (sequential)
  cron       generated cron expressions x window / min-interval / tolerance / strict settings x poll-time sequences through
             check_time_based_triggers(current_time=t), against a brute-force schedule evaluator with its own field matcher
  races      two trigger-loop iterations (and a reporter) as scheduler actors on both stores
"""

from __future__ import annotations

from collections import Counter
from datetime import UTC, datetime, timedelta
from typing import Any

from verif import apps, explore, sched, tasks, vclock
from verif.core import Ctx, Part, merge_parts, ncpu, pmap
from verif.hyp import Reporter, make_settings, run_given

LEVEL = "exploration"

SEM_RULE = (
    "trigger configurations (single / OR / AND over event, status, result and exception conditions; argument providers static, from-event, "
    "from-status, from-result, from-exception; one or two triggers per condition) x Hypothesis histories of <=14 steps (emit events, succeed or "
    "fail source invocations, run a loop iteration) on the Mem and SQLite trigger stores; oracle: model of pending occurrences -> expected "
    "multiset of launches with arguments; non-trivial = >=2 occurrences pending for one trigger at an iteration; distinct = (store, configuration, history)"
)
CRON_RULE = (
    "cron expressions from a grammar over minute and hour fields (*, */n, a, a-b, a-b/n, lists) x check_window {10,30,60,90} x min_interval {0,30,50,120} x "
    "strict/tolerance x poll sequences (regular, jittered, bursty, gaps, polls at window end +-1us / +-1s), both stores; oracle: brute-force evaluator "
    "(own field matcher over every minute); non-trivial = a poll within 1 s of a window edge or >=3 polls inside one window; distinct = (store, settings, expression, poll list)"
)
RACE_RULE = (
    "two concurrent trigger_loop_iteration actors (+ one event reporter) on Mem (line level: mem_trigger.py, base_trigger.py) and SQLite (statement level); "
    "all schedules with <= 1 forced switch (thorough 2); oracle: launches per occurrence == 1; non-trivial = a forced switch between the read and the write "
    "of a run claim / cron bookkeeping; distinct = (store, scenario, choice list)"
)

# ---------------------------------------------------------------------------- semantics

# cond keys: e1, e2 (events), st (src1 SUCCESS), res (src1 any result), exc (src1 any exception)
CONFIGS: list[dict[str, Any]] = [
    {"name": "single-event", "triggers": [("T", "OR", ["e1"], "event")]},
    {"name": "or-events", "triggers": [("T", "OR", ["e1", "e2"], "event")]},
    {"name": "single-status", "triggers": [("T", "OR", ["st"], "status")]},
    {"name": "single-result", "triggers": [("T", "OR", ["res"], "result")]},
    {"name": "single-exception", "triggers": [("T", "OR", ["exc"], "exception")]},
    {"name": "and-events", "triggers": [("T", "AND", ["e1", "e2"], "static")]},
    {"name": "and-event-status", "triggers": [("T", "AND", ["e1", "st"], "event")]},
    {"name": "or-event-status-static", "triggers": [("T", "OR", ["e1", "st"], "static")]},
    {"name": "registered-status", "triggers": [("T", "OR", ["reg"], "status")]},
    # one condition alone, the builder's default logic left untouched
    {"name": "single-event-default-logic", "triggers": [("T", "DEFAULT", ["e1"], "event")]},
    {"name": "single-status-default-logic", "triggers": [("T", "DEFAULT", ["st"], "status")]},
    {"name": "two-triggers-one-condition", "triggers": [("T", "OR", ["e1"], "event"), ("T2", "OR", ["e1"], "event")]},
    {"name": "or-and-share-condition", "triggers": [("T", "OR", ["e1"], "event"), ("T2", "AND", ["e1", "e2"], "static")]},
]
KIND_OF = {"e1": "event", "e2": "event", "st": "status", "reg": "status", "res": "result", "exc": "exception"}


def build(app: Any, cfg: dict) -> dict[str, Any]:
    from pynenc.trigger.conditions import CompositeLogic
    from pynenc.trigger.trigger_builder import TriggerBuilder

    t = {"T": app.task(tasks.target), "T2": app.task(tasks.target2), "src1": app.task(tasks.src1), "src2": app.task(tasks.src2)}
    per_task: dict[str, list[Any]] = {}
    for name, logic, conds, argmode in cfg["triggers"]:
        b = TriggerBuilder()
        for c in conds:
            if c in ("e1", "e2"):
                b.on_event(c)
            elif c == "st":
                b.on_status(t["src1"], "success")
            elif c == "reg":
                b.on_status(t["src1"], "registered")
            elif c == "res":
                b.on_any_result(t["src1"])
            elif c == "exc":
                b.on_exception(t["src1"])
        if logic != "DEFAULT":
            b.with_logic(CompositeLogic.AND if logic == "AND" else CompositeLogic.OR)
        if argmode == "static":
            b.with_args_static({"k": "static", "v": "static"})
        elif argmode == "event":
            b.with_args_from_event(tasks.args_from_event)
        elif argmode == "status":
            b.with_args_from_status(tasks.args_from_status)
        elif argmode == "result":
            b.with_args_from_result(tasks.args_from_result)
        elif argmode == "exception":
            b.with_args_from_exception(tasks.args_from_exception)
        per_task.setdefault(name, []).append(b)
    for name, builders in per_task.items():
        app.trigger.register_task_triggers(t[name], builders)
    return t


class TModel:
    def __init__(self, cfg: dict) -> None:
        self.cfg = cfg
        self.pending: list[dict[str, Any]] = []  # {"cond", "id", "arg"}
        self.handled: set[tuple[int, Any]] = set()  # (trigger index, occurrence id)
        self.max_pending_for_a_trigger = 0

    def add(self, cond: str, occ_id: Any, arg: Any) -> None:
        if any(cond in conds for _, _, conds, _ in self.cfg["triggers"]):
            self.pending.append({"cond": cond, "id": occ_id, "arg": arg})

    def iterate(self) -> dict[str, list[Any]]:
        """-> expected launches per target task: list of acceptable-argument sets (one per launch)."""
        out: dict[str, list[Any]] = {}
        for ti, (name, logic, conds, argmode) in enumerate(self.cfg["triggers"]):
            mine = [p for p in self.pending if p["cond"] in conds and (ti, p["id"]) not in self.handled]
            self.max_pending_for_a_trigger = max(self.max_pending_for_a_trigger, len(mine))
            if logic == "OR" or (logic == "DEFAULT" and len(conds) == 1):
                for p in mine:
                    acc = {"static"} if argmode == "static" else {p["arg"]}
                    out.setdefault(name, []).append(acc)
                    self.handled.add((ti, p["id"]))
            else:
                if all(any(p["cond"] == c for p in mine) for c in conds):
                    if argmode == "static":
                        acc = {"static"}
                    else:
                        acc = {p["arg"] for p in mine if KIND_OF[p["cond"]] == argmode}
                    out.setdefault(name, []).append(acc)
                    for p in mine:
                        self.handled.add((ti, p["id"]))
        # an occurrence leaves the pending set once every trigger depending on its condition has handled it
        keep = []
        for p in self.pending:
            deps = [ti for ti, (_, _, conds, _) in enumerate(self.cfg["triggers"]) if p["cond"] in conds]
            if not all((ti, p["id"]) in self.handled for ti in deps):
                keep.append(p)
        self.pending = keep
        return out


def sem_shard(kind: str, cfg_idx: int, seed: int, examples: int, known: list[str]) -> dict:
    import hypothesis
    from hypothesis import given, strategies as st
    from pynenc import context
    from pynenc.invocation.status import InvocationStatus as S

    cfg = CONFIGS[cfg_idx]
    part = Part("semantics", SEM_RULE)
    rep = Reporter(part, known)
    shared: dict[str, Any] = {}
    ops = st.lists(st.sampled_from(["e1", "e1", "e2", "ok", "ok", "fail", "batch", "loop", "loop"]), min_size=2, max_size=14)

    @hypothesis.seed(seed)
    @make_settings(examples)
    @given(history=ops)
    def prop(history):
        if "app" not in shared or shared["n"] > 40:
            shared["app"] = apps.make_app(kind)
            shared["n"] = 0
        shared["n"] += 1
        app = shared["app"]
        app.purge()
        app._tasks.clear()
        context.set_runner_context(app.app_id, apps.rctx("CLIENT"))
        t = build(app, cfg)
        model = TModel(cfg)
        rep.holder["case"] = {"store": kind, "config": cfg["name"], "history": history}
        seen: dict[str, set[str]] = {"T": set(), "T2": set()}
        A = apps.rctx("A")
        n = 0
        for op in list(history) + ["loop", "loop"]:
            n += 1
            if op in ("e1", "e2"):
                app.trigger.emit_event(op, {"n": n})
                model.add(op, ("ev", n), n)
            elif op == "batch":
                # a parallelize batch with two identical calls: three distinct invocations, three REGISTERED occurrences
                grp = t["src1"].parallelize([(n,), (n,), (n + 0.5,)])
                for j, gi in enumerate(grp.invocations):
                    model.add("reg", ("reg", n, j), gi.arguments.kwargs.get("x"))
            elif op in ("ok", "fail"):
                inv = t["src1"](n)
                model.add("reg", ("reg", n, "single"), n)
                app.orchestrator.set_invocation_status(inv.invocation_id, S.PENDING, A)
                app.orchestrator.set_invocation_status(inv.invocation_id, S.RUNNING, A)
                if op == "ok":
                    app.orchestrator.set_invocation_result(inv, n, A)
                    model.add("st", ("st", n), n)
                    model.add("res", ("res", n), n)
                else:
                    app.orchestrator.set_invocation_exception(inv, ValueError(f"boom{n}"), A)
                    model.add("exc", ("exc", n), n)
            else:
                exp = model.iterate()
                try:
                    app.trigger.trigger_loop_iteration()
                except Exception as exc:  # noqa: BLE001
                    rep.fail(f"semantics:{kind}:loop-raised:{type(exc).__name__}", f"[{cfg['name']}] trigger_loop_iteration raised {type(exc).__name__}: {exc}")
                    return
                for name in ("T", "T2"):
                    ids = {str(i) for i in app.orchestrator.get_task_invocation_ids(t[name].task_id)}
                    new = ids - seen[name]
                    seen[name] = ids
                    got = [app.state_backend.get_invocation(i).arguments.kwargs.get("k") for i in sorted(new)]
                    want = exp.get(name, [])
                    if len(got) > len(want):
                        rep.fail(f"semantics:{kind}:launched-too-often:{cfg['name']}", f"[{cfg['name']}] task {name}: {len(got)} launches with k={got}, expected {len(want)} ({want}); history={history}")
                    elif len(got) < len(want):
                        rep.fail(f"semantics:{kind}:launch-missing:{cfg['name']}", f"[{cfg['name']}] task {name}: {len(got)} launches with k={got}, expected {len(want)} ({want}); history={history}")
                    else:
                        # match launches to acceptable argument sets
                        rest = list(want)
                        for g in got:
                            hit = next((w for w in rest if g in w), None)
                            if hit is None:
                                rep.fail(f"semantics:{kind}:wrong-arguments:{cfg['name']}", f"[{cfg['name']}] task {name} launched with k={got}, expected one launch per occurrence with arguments {want}; history={history}")
                                break
                            rest.remove(hit)
        # nothing stays pending once all dependants ran
        left = len(app.trigger.get_valid_conditions())
        rep.check(left == len(model.pending), f"semantics:{kind}:pending-mismatch:{cfg['name']}", f"[{cfg['name']}] {left} valid conditions remain, model expects {len(model.pending)}; history={history}")
        part.case(key=(kind, cfg["name"], history), nontrivial=model.max_pending_for_a_trigger >= 2, classes=[f"store_{kind}", f"cfg_{cfg['name']}", f"maxpending{min(model.max_pending_for_a_trigger, 4)}"],
                  sample=rep.holder["case"])

    run_given(rep, prop, f"semantics:{kind}:{cfg['name']}", max_buckets=4)
    return part.dump()


# ---------------------------------------------------------------------------- cron

def parse_field(f: str, lo: int, hi: int) -> set[int]:
    out: set[int] = set()
    for piece in f.split(","):
        step = 1
        if "/" in piece:
            piece, s = piece.split("/")
            step = int(s)
        if piece == "*":
            a, b = lo, hi
        elif "-" in piece:
            a, b = map(int, piece.split("-"))
        else:
            a = int(piece)
            b = hi if step != 1 else a
        out.update(range(a, b + 1, step))
    return out


def ticks_between(expr: str, start: datetime, end: datetime) -> list[datetime]:
    m, h, dom, mon, dow = expr.split()
    assert (dom, mon, dow) == ("*", "*", "*")
    ms, hs = parse_field(m, 0, 59), parse_field(h, 0, 23)
    out = []
    t = start.replace(second=0, microsecond=0)
    while t <= end:
        if t.minute in ms and t.hour in hs and t >= start.replace(second=0, microsecond=0):
            out.append(t)
        t += timedelta(minutes=1)
    return out


def cron_model(expr: str, window: float, min_interval: float, strict: bool, tol: float, polls: list[datetime]) -> list[bool]:
    if not polls:
        return []
    ticks = ticks_between(expr, polls[0] - timedelta(days=1, hours=1), polls[-1])
    fires = []
    last: datetime | None = None
    for t in polls:
        prev = [x for x in ticks if x <= t]
        ok = False
        if prev:
            tau = prev[-1]
            d = (t - tau).total_seconds()
            ok = d <= window and (not strict or d <= tol)
            if ok and last is not None:
                ok = (t - last).total_seconds() >= min_interval and any(last < x <= t for x in ticks)
        fires.append(ok)
        if ok:
            last = t
    return fires


def cron_strategy():
    from hypothesis import strategies as st

    minute = st.one_of(st.just("*"), st.sampled_from(["*/2", "*/5", "*/15", "0", "7", "0,30", "5-10", "0-20/5", "3,9,44", "59"]))
    hour = st.one_of(st.just("*"), st.sampled_from(["*/6", "0", "12", "9-17", "0,12"]))
    daily = st.sampled_from(["0 12 * * *", "59 11 * * *", "1 12 * * *", "0 0 * * *"])
    return st.one_of(st.tuples(minute, hour).map(lambda mh: f"{mh[0]} {mh[1]} * * *"), daily)


def cron_shard(kind: str, seed: int, examples: int, known: list[str]) -> dict:
    import hypothesis
    from hypothesis import given, strategies as st
    from pynenc.trigger.conditions.cron import CronCondition

    part = Part("cron", CRON_RULE)
    rep = Reporter(part, known)
    shared: dict[str, Any] = {}
    base = datetime(2024, 3, 10, 11, 58, 0, tzinfo=UTC)
    gaps = st.lists(st.one_of(st.sampled_from([0.5, 1, 5, 9, 10, 11, 29, 30, 31, 45, 59, 60, 61, 90, 120, 300, 3600, 86400 - 20, 86400, 86400 + 7, 86400 + 40, 2 * 86400 + 15]), st.floats(0.001, 200, allow_nan=False)), min_size=1, max_size=14)

    @hypothesis.seed(seed)
    @make_settings(examples)
    @given(expr=cron_strategy(), window=st.sampled_from([10, 30, 60, 90]), min_interval=st.sampled_from([0, 30, 50, 120]), strict=st.booleans(), tol=st.sampled_from([5, 30]),
           gaps=gaps, align=st.sampled_from(["free", "edge", "burst"]), off=st.integers(0, 59))
    def prop(expr, window, min_interval, strict, tol, gaps, align, off):
        if "app" not in shared or shared["n"] > 60:
            shared["app"] = apps.make_app(kind)
            shared["task"] = shared["app"].task(tasks.target)
            shared["n"] = 0
        shared["n"] += 1
        app = shared["app"]
        app.trigger.purge()
        cond = CronCondition(expr, check_window_seconds=window, min_interval_seconds=min_interval, precision_tolerance_seconds=tol, strict_timing=strict)
        app.trigger.register_condition(cond)
        start = base + timedelta(minutes=off)
        polls: list[datetime] = []
        t = start
        for g in gaps:
            t = t + timedelta(seconds=round(g, 3))
            polls.append(t)
        if align in ("edge", "burst"):
            # add polls at the end of the next window: +-1us, +-1s; or a burst inside a window
            nxt = ticks_between(expr, polls[-1], polls[-1] + timedelta(days=1, hours=1))
            if nxt:
                tau = nxt[0] if nxt[0] > polls[-1] else (nxt[1] if len(nxt) > 1 else None)
                if tau is not None:
                    if align == "edge":
                        lim = tol if strict and tol < window else window
                        for d in (-1, -0.000001, 0, 0.000001, 1):
                            p = tau + timedelta(seconds=lim + d)
                            if p > polls[-1]:
                                polls.append(p)
                    else:
                        for d in (0.2, 1.5, 3, 7, 9.9):
                            polls.append(tau + timedelta(seconds=d))
        polls = sorted(set(polls))
        rep.holder["case"] = {"store": kind, "expr": expr, "window": window, "min_interval": min_interval, "strict": strict, "tolerance": tol, "polls": [p.isoformat() for p in polls]}
        exp = cron_model(expr, window, min_interval, strict, tol, polls)
        got = []
        for p in polls:
            before = set(app.trigger.get_valid_conditions().keys())
            app.trigger.check_time_based_triggers(current_time=p)
            after = set(app.trigger.get_valid_conditions().keys())
            got.append(len(after - before))
        ticks = ticks_between(expr, polls[0] - timedelta(hours=1), polls[-1])
        lim = min(window, tol) if strict else window
        near = any(abs((p - x).total_seconds() - lim) <= 1 or abs((p - x).total_seconds()) <= 1 for p in polls for x in ticks if x <= p)
        burst = any(sum(1 for p in polls if 0 <= (p - x).total_seconds() <= lim) >= 3 for x in ticks)
        part.case(key=(kind, expr, window, min_interval, strict, tol, tuple(polls)), nontrivial=near or burst,
                  classes=[f"store_{kind}", f"align_{align}", "strict" if strict else "relaxed", f"window{window}", "fires" if any(exp) else "no_fire"], sample=rep.holder["case"])
        for p, e, g in zip(polls, exp, got):
            if g > 1:
                rep.fail(f"cron:{kind}:two-occurrences-one-poll", f"{g} occurrences recorded by one poll at {p}")
            if bool(g) != e:
                prevt = [x for x in ticks if x <= p]
                d = (p - prevt[-1]).total_seconds() if prevt else None
                sub = "in-scheduled-minute" if (d is not None and d < 60 and d > lim) else ("missed" if e else "spurious")
                rep.fail(f"cron:{'fired-outside-window' if not e else 'did-not-fire'}:{sub}", f"[{kind}] poll {p.isoformat()} ({d}s after the scheduled minute; window {window}, strict {strict}/{tol}, min_interval {min_interval}) fired={bool(g)} expected={e}; expr={expr!r}")

    run_given(rep, prop, f"cron:{kind}", max_buckets=4)
    return part.dump()


# ---------------------------------------------------------------------------- races

RACE_SCENARIOS = ["event-two-loops", "event-loops-and-reporter", "two-events-two-loops", "reregister-vs-loop"]


def run_race(kind: str, scenario: str, policy: sched.Policy, clock: Any, shared: dict) -> tuple[sched.Scheduler, dict]:
    from pynenc import context

    if "app" not in shared:
        shared["app"] = apps.make_app(kind)
    app = shared["app"]
    app.purge()
    app._tasks.clear()
    context.set_runner_context(app.app_id, apps.rctx("CLIENT"))
    t = build(app, CONFIGS[0])
    n_events = 2 if scenario == "two-events-two-loops" else 1
    for i in range(n_events):
        app.trigger.emit_event("e1", {"n": 100 + i})
    apps.flush(app)
    errors: list[str] = []

    def loop(name):
        def f():
            context.set_runner_context(app.app_id, apps.rctx(name))
            try:
                app.trigger.trigger_loop_iteration()
            except Exception as exc:  # noqa: BLE001
                errors.append(f"{name}: {type(exc).__name__}: {exc}")
        return f

    def reporter():
        context.set_runner_context(app.app_id, apps.rctx("REP"))
        app.trigger.emit_event("e1", {"n": 200})

    tf = sched.trace_file_set("pynenc/trigger/mem_trigger.py", "pynenc/trigger/base_trigger.py") if kind == "mem" else set()
    s = sched.Scheduler(policy, clock=clock, trace_files=tf, max_steps=80_000)
    def reregister():
        # another runner starting up registers the same task triggers again (clean + register)
        context.set_runner_context(app.app_id, apps.rctx("STARTUP"))
        from pynenc.trigger.trigger_builder import TriggerBuilder

        b = TriggerBuilder().on_event("e1").with_args_from_event(tasks.args_from_event)
        app.trigger.register_task_triggers(t["T"], [b])

    s.spawn("loopA", loop("LA"))
    if scenario == "reregister-vs-loop":
        s.spawn("startup", reregister)
    else:
        s.spawn("loopB", loop("LB"))
    if scenario == "event-loops-and-reporter":
        s.spawn("reporter", reporter)
    s.run()
    out: dict[str, Any] = {"errors": errors, "launches": [], "pending": None}
    if s.failure is None:
        # a final sequential iteration picks up what the reporter added late
        try:
            app.trigger.trigger_loop_iteration()
        except Exception as exc:  # noqa: BLE001
            errors.append(f"final: {type(exc).__name__}: {exc}")
        ids = sorted(str(i) for i in app.orchestrator.get_task_invocation_ids(t["T"].task_id))
        out["launches"] = [app.state_backend.get_invocation(i).arguments.kwargs.get("k") for i in ids]
        out["expected"] = [100 + i for i in range(n_events)] + ([200] if scenario == "event-loops-and-reporter" else [])
        out["pending"] = len(app.trigger.get_valid_conditions())
    return s, out


def race_shard(kind: str, scenario: str, p_max: int, limit: int, known: list[str]) -> dict:
    part = Part("races", RACE_RULE)
    clock = vclock.VClock(tick_us=1)
    cinst = vclock.install(clock)
    sched.install_clock_sleep(clock)
    inst = sched.install_threading()
    if kind == "sqlite":
        sched.install_sqlite(inst)
    shared: dict = {}
    try:
        def run_with(policy):
            s, out = run_race(kind, scenario, policy, clock, shared)
            s.out = out  # type: ignore[attr-defined]
            return s

        for tag, s in explore.dfs_preemptions(run_with, p_max, limit=limit):
            out = s.out
            part.case(key=(kind, scenario, tuple(s.choices)), nontrivial=len(tag) >= 1, classes=[f"store_{kind}", f"sc_{scenario}", f"forced{len(tag)}"],
                      sample={"store": kind, "scenario": scenario, "choices": s.choices[:50], "launches": out["launches"]})
            if s.failure is not None:
                if not isinstance(s.failure, sched.Budget):
                    key = f"races:{kind}:deadlock"
                    (part.known if key in known else lambda k: part.violation(k, str(s.failure), {"store": kind, "scenario": scenario, "choices": s.choices}))(key)
                continue
            probs = []
            c_got, c_exp = Counter(out["launches"]), Counter(out["expected"])
            if any(c_got[k] > c_exp[k] for k in c_got):
                probs.append(("launched-twice", f"launches {out['launches']} expected one per occurrence {out['expected']}"))
            if any(c_got[k] < c_exp[k] for k in c_exp):
                probs.append(("launch-missing", f"launches {out['launches']} expected one per occurrence {out['expected']}"))
            for e in out["errors"]:
                probs.append(("loop-raised", e))
            for pk, msg in probs:
                key = f"races:{kind}:{pk}"
                if key in known:
                    part.known(key)
                else:
                    part.violation(key, f"[{kind}/{scenario}] {msg}", {"store": kind, "scenario": scenario, "choices": s.choices})
    finally:
        inst.uninstall()
        cinst.uninstall()
    return part.dump()


def _dispatch(name: str, args: tuple) -> dict:
    return globals()[name](*args)


def run(ctx: Ctx) -> None:
    known = sorted(ctx.known_keys())
    q = ctx.quick
    jobs = []
    for kind in ("mem", "sqlite"):
        for c in range(len(CONFIGS)):
            jobs.append(("sem_shard", (kind, c, ctx.seed * 100 + c, (80 if kind == "mem" else 30) if q else 1000, known)))
        for k in range(2):
            jobs.append(("cron_shard", (kind, ctx.seed * 100 + 50 + k, (200 if kind == "mem" else 80) if q else 4000, known)))
        for sc in RACE_SCENARIOS:
            jobs.append(("race_shard", (kind, sc, 1 if q else 2, 300 if q else 5000, known)))
    merge_parts(ctx, pmap(_dispatch, jobs))
    ctx.assumptions.append("cron oracle: own field matcher over minute/hour fields (day, month, weekday fields are '*' in the generated family); no croniter in the oracle")
    ctx.assumptions.append("argument providers across condition kinds are only combined with static arguments (a from-event provider cannot serve a status occurrence by construction)")


def replay(case: dict) -> int:
    c = case["case"]
    if "choices" in c:
        clock = vclock.VClock(tick_us=1)
        cinst = vclock.install(clock)
        sched.install_clock_sleep(clock)
        inst = sched.install_threading()
        if c["store"] == "sqlite":
            sched.install_sqlite(inst)
        try:
            s, out = run_race(c["store"], c["scenario"], sched.Replay(list(c["choices"])), clock, {})
            print(out)
            return 1 if Counter(out["launches"]) != Counter(out["expected"]) else 0
        finally:
            inst.uninstall()
            cinst.uninstall()
    print("re-run the check with the recorded seed to replay:", c)
    return 2
