"""C12 - at most one runner authorised for global services at any instant.

Parts:
  grid         finite configuration space x (dense grid + every slot boundary and its neighbours),
               can_run_atomic_service for ALL runners at the same instant, rational reference model
  floats       Hypothesis-generated float configurations / instants
  integration  should_run_atomic_service on Mem and SQLite orchestrators under a virtual clock
"""

from __future__ import annotations

import math
from datetime import UTC, datetime
from fractions import Fraction
from typing import Any

from verif import apps, vclock
from verif.core import Ctx, Part, merge_parts, ncpu, pmap

LEVEL = "exploration"

GRID_RULE = (
    "N in 1..Nmax x interval in {0.1,0.5,1,5,7.3,60} min x margin in {0, 1e-9, slot/3, slot-1e-6s, slot, 2*slot} x epoch offset in "
    "{0, 1.7e9, 1e12} x (G-point grid per cycle + every window start/end +-{0, 1 ulp, 1us} over 3 cycles), all runner positions asked at the "
    "same instant; non-trivial = instant within 1us of a window boundary or margin >= slot; distinct = (config, instant)"
)
FLOAT_RULE = (
    "Hypothesis floats: interval 0.01..1000 min, margin 0..2*interval, N 1..16, instant 0..2e12 (plus boundary-centred instants); "
    "non-trivial = N >= 2 and some runner authorised at the instant, or instant within 1us of a boundary"
)
INT_RULE = (
    "Mem and SQLite orchestrators under one stepped virtual clock: 2-5 runners registered at distinct times, optional silent runners past "
    "the heartbeat timeout, every runner asks should_run_atomic_service at the same instant over a grid of instants; "
    "non-trivial = instant with >= 2 active runners; distinct = (scenario, instant)"
)

EPS = Fraction(1, 1_000_000)


def model_windows(n: int, interval_min: float, margin_min: float):
    """Exact rational windows [(start, end)] within a cycle of length I seconds."""
    # seconds are obtained exactly as the implementation documents them: minutes * 60 in
    # float arithmetic (one rounding); everything after that is exact here
    I = Fraction(interval_min * 60)
    m = Fraction(margin_min * 60)
    slot = I / n
    out = []
    for p in range(n):
        start = p * slot
        w = slot - m if m < slot else slot / 2
        out.append((start, start + w))
    return I, slot, m, out


def runners(n: int, hist: tuple[float | None, ...] = ()):
    """hist[i] = duration in seconds of runner i's last recorded service execution (None: no history)."""
    from datetime import timedelta

    from pynenc.orchestrator.atomic_service import ActiveRunnerInfo

    t0 = datetime(2024, 1, 1, tzinfo=UTC)
    out = []
    for i in range(n):
        d = hist[i % len(hist)] if hist else None
        if d is None:
            out.append(ActiveRunnerInfo(f"r{i}", t0, t0, True))
        else:
            out.append(ActiveRunnerInfo(f"r{i}", t0, t0, True, t0, t0 + timedelta(seconds=d)))
    return out


def ask_all(rs, t: float, interval: float, margin: float) -> list[bool]:
    from pynenc.orchestrator.atomic_service import can_run_atomic_service

    return [can_run_atomic_service(r.runner_id, rs, t, interval, margin) for r in rs]


def check_instant(part: Part, rs, n, interval, margin, t: float, I, wins, known, tag: str) -> None:
    got = ask_all(rs, t, interval, margin)
    tc = Fraction(t) % I
    near = False
    for s, e in wins:
        for b in (s, e, s + I, e + I):
            if abs(tc - b) <= EPS:
                near = True
    margin_ge_slot = Fraction(margin * 60) >= I / n
    degenerate = abs(Fraction(margin * 60) - I / n) <= EPS  # margin ~ slot: either regime (tiny window / half slot) is acceptable
    cfg = {"n": n, "interval_min": interval, "margin_min": margin, "t": t}
    part.case(key=(n, interval, margin, t), nontrivial=near or (margin_ge_slot and n > 1),
              classes=[tag, "near_boundary" if near else "interior", f"n{n}", "margin_ge_slot" if margin_ge_slot else "margin_lt_slot"],
              sample={**cfg, "authorised": got})
    cnt = sum(got)
    if cnt > 1:
        key = "grid:two-authorised" + (":margin0" if margin == 0 else "")
        (part.known if key in known else lambda k: part.violation(k, f"{cnt} runners authorised at t={t!r} cfg={cfg}", {**cfg, "authorised": got}))(key)
        return
    if n == 1:
        if got != [True]:
            part.violation("grid:single-runner-not-authorised", f"single runner not authorised at t={t!r}", cfg)
        return
    if not near and not degenerate:
        exp = [s <= tc < e for s, e in wins]
        if got != exp:
            key = "grid:model-mismatch"
            (part.known if key in known else lambda k: part.violation(k, f"authorised {got} expected {exp} cfg={cfg}", {**cfg, "authorised": got, "expected": exp}))(key)


def grid_shard(configs: list[tuple[int, float]], grid: int, known: list[str]) -> dict:
    part = Part("grid", GRID_RULE, exhaustive=True)
    for n, interval, hist_kind in [(n, iv, hk) for (n, iv) in configs for hk in ("none", "short", "long")]:
        slot_s = interval * 60 / n
        # recorded execution history must never change who is authorised when (it only feeds diagnostics)
        hist = {"none": (), "short": (0.5, None), "long": (slot_s, 3 * slot_s, None)}[hist_kind]
        rs = runners(n, hist)
        slot_min = interval / n
        margins = [0.0, 1e-9, slot_min / 3, slot_min - 1e-6 / 60, slot_min, 2 * slot_min]
        for margin in margins:
            I, slot, m, wins = model_windows(n, interval, margin)
            If = float(I)
            for offset_cycles in ((0, int(1.7e9 // If), int(1e12 // If)) if hist_kind == "none" else (int(1.7e9 // If),)):
                base = offset_cycles * If
                for g in range(grid if hist_kind == "none" else max(40, grid // 10)):
                    check_instant(part, rs, n, interval, margin, base + (g + 0.37) * If / (grid if hist_kind == "none" else max(40, grid // 10)), I, wins, known, "grid" if hist_kind == "none" else f"grid_hist_{hist_kind}")
                for cyc in range(3):
                    for s, e in wins:
                        for b in (s, e):
                            bt = base + cyc * If + float(b)
                            cands = {bt, math.nextafter(bt, math.inf), math.nextafter(bt, -math.inf), bt + 1e-6, bt - 1e-6}
                            for t in sorted(cands):
                                if t >= 0:
                                    check_instant(part, rs, n, interval, margin, t, I, wins, known, "boundary")
            # non-empty window per runner: the exact midpoint of each model window must be authorised
            if n > 1 and abs(m - slot) > EPS:
                for p, (s, e) in enumerate(wins):
                    mid = float((s + e) / 2)
                    got = ask_all(rs, mid, interval, margin)
                    if not got[p]:
                        part.violation("grid:empty-window", f"runner {p} not authorised at the middle of its window n={n} interval={interval} margin={margin}",
                                       {"n": n, "interval_min": interval, "margin_min": margin, "t": mid, "authorised": got})
                # margin separation (margin < slot): nobody authorised inside the gap
                if m < slot and m > 2 * EPS:
                    for p, (s, e) in enumerate(wins):
                        for frac in (Fraction(1, 100), Fraction(1, 2), Fraction(99, 100)):
                            t = float(e + m * frac)
                            got = ask_all(rs, t, interval, margin)
                            part.case(key=(n, interval, margin, t, "gap"), nontrivial=True, classes=["gap"])
                            if any(got):
                                part.violation("grid:margin-not-kept", f"runner authorised inside the margin gap at t={t} n={n} interval={interval} margin={margin}",
                                               {"n": n, "interval_min": interval, "margin_min": margin, "t": t, "authorised": got})
    return part.dump()


def float_shard(seed: int, examples: int, known: list[str]) -> dict:
    import hypothesis
    from hypothesis import HealthCheck, Phase, given, settings, strategies as st

    part = Part("floats", FLOAT_RULE)
    holder: dict[str, Any] = {}

    @hypothesis.seed(seed)
    @settings(max_examples=examples, deadline=None, database=None, report_multiple_bugs=False,
              suppress_health_check=list(HealthCheck), phases=[Phase.generate, Phase.shrink])
    @given(
        n=st.integers(1, 16),
        interval=st.floats(0.01, 1000, allow_nan=False),
        mfrac=st.floats(0, 2, allow_nan=False),
        tsel=st.one_of(
            st.tuples(st.just("free"), st.floats(0, 2e12, allow_nan=False), st.just(0), st.just(0)),
            st.tuples(st.just("edge"), st.floats(0, 2e12, allow_nan=False), st.integers(0, 15), st.integers(-2, 2)),
        ),
    )
    def prop(n, interval, mfrac, tsel):
        margin = mfrac * interval / n if mfrac <= 1.5 else mfrac * interval
        rs = runners(n)
        I, slot, m, wins = model_windows(n, interval, margin)
        kind, t, p, ulps = tsel
        if kind == "edge":
            s, e = wins[p % n]
            b = float(s if ulps % 2 == 0 else e) + math.floor(t / float(I)) * float(I)
            t = b
            for _ in range(abs(ulps)):
                t = math.nextafter(t, math.inf if ulps > 0 else -math.inf)
            t = max(t, 0.0)
        got = ask_all(rs, t, interval, margin)
        tc = Fraction(t) % I
        near = any(abs(tc - b) <= EPS for s, e in wins for b in (s, e, s + I, e + I))
        holder["case"] = {"n": n, "interval_min": interval, "margin_min": margin, "t": t, "authorised": got}
        part.case(key=(n, interval, margin, t), nontrivial=(n >= 2 and any(got)) or near,
                  classes=[kind, "near_boundary" if near else "interior", "some_authorised" if any(got) else "none_authorised"],
                  sample=holder["case"])
        assert sum(got) <= 1, "two-authorised"
        if n == 1:
            assert got == [True], "single-runner-not-authorised"
        elif not near and abs(m - slot) > EPS:
            exp = [s <= tc < e for s, e in wins]
            assert got == exp, "model-mismatch"

    try:
        prop()
    except AssertionError as exc:
        key = "floats:" + str(exc).split("\n")[0][:40]
        if key in known:
            part.known(key)
        else:
            part.violation(key, f"{exc} at {holder.get('case')}", holder.get("case"))
    return part.dump()


def integration_shard(seed: int, scenarios: int, known: list[str]) -> dict:
    import random

    part = Part("integration", INT_RULE)
    rnd = random.Random(seed)
    clock = vclock.VClock(start_us=1_700_000_000_000_000, tick_us=0)
    inst = vclock.install(clock)
    try:
        for sc in range(scenarios):
            n = rnd.randint(2, 5)
            interval = rnd.choice([0.5, 1.0, 5.0])
            margin = rnd.choice([0.0, interval / n / 3, interval / n, interval])
            dead_after = rnd.choice([1.0, 10.0])
            conf = dict(atomic_service_interval_minutes=interval, atomic_service_spread_margin_minutes=margin,
                        runner_considered_dead_after_minutes=dead_after)
            pair = {k: apps.make_app(k, **conf) for k in ("mem", "sqlite")}
            ctxs = [apps.rctx(f"run{i}") for i in range(n)]
            silent = set(rnd.sample(range(n), rnd.choice([0, 0, 1])))
            # runners that start at the same instant (one batch heartbeat, e.g. the workers of one parent) have equal creation
            # timestamps: the order among them is arbitrary but must be the same for every caller
            same_instant = rnd.random() < 0.4
            if same_instant:
                for app in pair.values():
                    app.orchestrator.register_runner_heartbeats([c.runner_id for c in ctxs], can_run_atomic_service=True)
            for i, c in enumerate(ctxs):
                for app in pair.values():
                    app.orchestrator.should_run_atomic_service(c)
                if not same_instant:
                    clock.advance(rnd.choice([0.25, 1.0, 3.5]))
            # a runner that stalls (no poll) for a while - shorter than the heartbeat timeout, so it is still alive - and resumes
            stall: dict[int, tuple[float, float]] = {}
            cands = [x for x in (70.0, 150.0, 300.0) if x < dead_after * 60 * 0.9]
            if cands and rnd.random() < 0.6:
                who = rnd.choice([i for i in range(n) if i not in silent] or [0])
                t_a = clock.time() + rnd.choice([5.0, 40.0, 90.0])
                stall[who] = (t_a, t_a + rnd.choice(cands))
            t_end = clock.time() + interval * 60 * 2 + dead_after * 60
            step = interval * 60 / rnd.choice([7, 13, 29])
            while clock.time() < t_end:
                clock.advance(step)
                answers = {}
                for kind, app in pair.items():
                    ans = []
                    for i, c in enumerate(ctxs):
                        if i in silent or (i in stall and stall[i][0] <= clock.time() < stall[i][1]):
                            ans.append(None)
                            continue
                        ans.append(bool(app.orchestrator.should_run_atomic_service(c)))
                    answers[kind] = ans
                    active = len(app.orchestrator.get_active_runners(can_run_atomic_service=True))
                case = {"n": n, "interval_min": interval, "margin_min": margin, "silent": sorted(silent), "t": clock.time(), "answers": answers, "same_instant_start": same_instant}
                part.case(key=(sc, seed, clock.us), nontrivial=active >= 2, classes=[f"active{active}", f"n{n}", "same_instant_start" if same_instant else "staggered_start", "with_stalling_runner" if stall else "no_stall"], sample=case)
                for kind, ans in answers.items():
                    if sum(1 for a in ans if a) > 1:
                        key = f"integration:two-authorised:{kind}"
                        (part.known if key in known else lambda k: part.violation(k, f"{kind}: {ans} at {case}", case))(key)
                if answers["mem"] != answers["sqlite"] and not same_instant:  # ties in the creation time may be ordered differently per backend
                    key = "integration:backend-disagreement"
                    (part.known if key in known else lambda k: part.violation(k, f"mem {answers['mem']} sqlite {answers['sqlite']}", case))(key)
    finally:
        inst.uninstall()
    return part.dump()


def run(ctx: Ctx) -> None:
    known = sorted(ctx.known_keys())
    nmax = 8 if ctx.quick else 16
    grid = 400 if ctx.quick else 4000
    configs = [(n, iv) for n in range(1, nmax + 1) for iv in (0.1, 0.5, 1.0, 5.0, 7.3, 60.0)]
    shards = ncpu()
    jobs = [(configs[k::shards], grid, known) for k in range(shards) if configs[k::shards]]
    merge_parts(ctx, pmap(grid_shard, jobs))
    ctx.parts["grid"].rule += f" (Nmax={nmax}, G={grid})"
    ex = 1500 if ctx.quick else 40000
    merge_parts(ctx, pmap(float_shard, [(ctx.seed * 1000 + k, ex, known) for k in range(shards)]))
    sc = 12 if ctx.quick else 60
    merge_parts(ctx, pmap(integration_shard, [(ctx.seed * 1000 + k, sc, known) for k in range(shards)]))
    ctx.assumptions.append("reference windows are computed in exact rationals from the float configuration values; the float implementation may differ from the model only within 1us of a boundary, and never by authorising two runners")
    ctx.assumptions.append("integration slice: module-level time/datetime names of the orchestrators replaced by a stepped virtual clock")


def replay(case: dict) -> int:
    c = case["case"]
    rs = runners(c["n"])
    got = ask_all(rs, c["t"], c["interval_min"], c["margin_min"])
    print("authorised:", got)
    return 1 if sum(got) > 1 or got != c.get("expected", got) else 0
