"""C08 - broker: exactly-once, FIFO, exact count.

Parts:
  machine     Hypothesis state machine on MemBroker and SQLiteBroker against a deque model
  schedules   (added with the deterministic scheduler) concurrent retrievers/routers
"""

from __future__ import annotations

from collections import deque
from typing import Any

from verif import apps
from verif.core import Ctx, Part, merge_parts, ncpu, pmap
from verif.hyp import Reporter, make_settings, run_machine

LEVEL = "exploration"

MACH_RULE = (
    "Hypothesis state machine per broker (route_invocation, route_invocations with repeated ids, retrieve_invocation, count_invocations, purge), "
    "up to 200 steps, deque reference model checked after every step; non-trivial = a retrieve issued with >=3 queued messages including a repeated id; "
    "distinct = operation trace"
)


def machine_shard(kind: str, seed: int, examples: int, steps: int, known: list[str]) -> dict:
    from hypothesis import strategies as st
    from hypothesis.stateful import RuleBasedStateMachine, invariant, rule

    part = Part("machine", MACH_RULE)
    rep = Reporter(part, known)
    shared: dict[str, Any] = {}
    ids = st.sampled_from([f"inv-{i}" for i in range(6)])

    def get_app():
        if "app" not in shared or shared["n"] > 150:
            shared["app"] = apps.make_app(kind)
            shared["n"] = 0
        shared["n"] += 1
        return shared["app"]

    class Machine(RuleBasedStateMachine):
        def __init__(self):
            super().__init__()
            self.app = get_app()
            self.b = self.app.broker
            self.b.purge()
            self.model: deque[str] = deque()
            self.trace: list[Any] = []
            self.nontrivial = False
            self.flags: set[str] = set()

        def _t(self, *op):
            self.trace.append(op)
            rep.holder["case"] = {"backend": kind, "trace": list(self.trace)}

        @rule(i=ids)
        def route(self, i):
            self._t("route", i)
            self.b.route_invocation(i)
            self.model.append(i)

        @rule(batch=st.lists(ids, max_size=5))
        def route_batch(self, batch):
            self._t("route_batch", batch)
            self.b.route_invocations(list(batch))
            self.model.extend(batch)
            if len(batch) != len(set(batch)):
                self.flags.add("batch_with_repeat")

        @rule()
        def retrieve(self):
            self._t("retrieve")
            if len(self.model) >= 3 and len(set(self.model)) < len(self.model):
                self.nontrivial = True
            got = self.b.retrieve_invocation()
            exp = self.model.popleft() if self.model else None
            if exp is None:
                self.flags.add("retrieve_empty")
            rep.check(got == exp, f"machine:{kind}:retrieve-mismatch", f"retrieve returned {got!r}, model head {exp!r}; trace={self.trace[-8:]}")

        @rule()
        def purge(self):
            self._t("purge")
            self.b.purge()
            self.model.clear()
            self.flags.add("purge")

        @invariant()
        def count_ok(self):
            n = self.b.count_invocations()
            rep.check(n == len(self.model), f"machine:{kind}:count-mismatch", f"count {n} model {len(self.model)}; trace={self.trace[-8:]}")

        def teardown(self):
            # drain: everything still queued comes out in model order, then None
            rest = []
            while True:
                g = self.b.retrieve_invocation()
                if g is None:
                    break
                rest.append(g)
                if len(rest) > len(self.model) + 5:
                    break
            ok = rest == list(self.model)
            part.case(key=(kind, self.trace), nontrivial=self.nontrivial, classes=[f"backend_{kind}", *sorted(self.flags), f"len{min(len(self.trace) // 50 * 50, 200)}"],
                      sample={"backend": kind, "trace": self.trace[:15], "drained": rest[:6]})
            rep.check(ok, f"machine:{kind}:drain-mismatch", f"drain {rest} model {list(self.model)}")

    run_machine(rep, Machine, seed, make_settings(examples, steps), f"machine:{kind}")
    return part.dump()


def run(ctx: Ctx) -> None:
    known = sorted(ctx.known_keys())
    shards = ncpu() // 2
    ex_mem, ex_sql = (300, 50) if ctx.quick else (3000, 500)
    jobs = [("mem", ctx.seed * 1000 + k, ex_mem, 200, known) for k in range(shards)]
    jobs += [("sqlite", ctx.seed * 1000 + 500 + k, ex_sql, 120, known) for k in range(shards)]
    merge_parts(ctx, pmap(machine_shard, jobs))
    try:
        from verif.props import c08_sched

        c08_sched.run(ctx)
    except ImportError:
        ctx.assumptions.append("concurrent-retriever part not built yet")
    ctx.assumptions.append("SQLite queue order relies on julianday('now') + index order; ties are common and watched by the model comparison")


def replay(case: dict) -> int:
    c = case["case"]
    if "choices" in c:
        from verif.props import c08_sched

        return c08_sched.replay_case(c)
    app = apps.make_app(c["backend"])
    b = app.broker
    model: deque[str] = deque()
    for op in c["trace"]:
        if op[0] == "route":
            b.route_invocation(op[1]); model.append(op[1])
        elif op[0] == "route_batch":
            b.route_invocations(list(op[1])); model.extend(op[1])
        elif op[0] == "purge":
            b.purge(); model.clear()
        elif op[0] == "retrieve":
            got = b.retrieve_invocation()
            exp = model.popleft() if model else None
            if got != exp:
                print("REPRODUCED: retrieve", got, "expected", exp)
                return 1
        if b.count_invocations() != len(model):
            print("REPRODUCED: count", b.count_invocations(), "expected", len(model))
            return 1
    return 0
