"""C06 - running concurrency control: never two RUNNING invocations with the same key.

One Hypothesis-drawn case = (task options, submissions, submission path, runners, schedule seed) executed
once under the deterministic scheduler: runner actors poll (get_invocations_to_run) for several rounds and
start one worker actor per yielded invocation (invocation.run); bodies span several scheduling steps and may
raise a retriable error on their first attempt.  A monitor logs accepted transitions, concurrency checks and
poll failures; the oracle replays the log with the concurrency keys the harness computes from the arguments.
"""

from __future__ import annotations

import random
from typing import Any

from verif import apps, scen, sched, tasks, vclock, whitebox
from verif.core import Ctx, Part, merge_parts, ncpu, pmap
from verif.hyp import Reporter, make_settings, run_given
from verif.models import lifecycle as L

LEVEL = "exploration"

RULE = (
    "Hypothesis case = mode (TASK/ARGUMENTS/KEYS with key subsets) x reroute option x submission path (call, parallelize per-call, parallelize "
    "batch, waited-on children of a running parent) x <=5 submissions over 2 key values x retry flag x 1-3 runners (slots, rounds) x schedule "
    "(seeded random / PCT / non-preemptive); one scheduler execution per case on Mem (line level) or SQLite (statement level); "
    "non-trivial = >=2 submissions share a key and >=1 has a different key (TASK mode: >=2 submissions); distinct = full case"
)

MODES = [
    ("TASK", ()),
    ("ARGUMENTS", ()),
    ("KEYS", ("k",)),
    ("KEYS", ("k", "v")),
]

MEM_FILES = (
    "pynenc/orchestrator/mem_orchestrator.py",
    "pynenc/broker/mem_broker.py",
    "pynenc/orchestrator/base_orchestrator.py",
    "pynenc/invocation/dist_invocation.py",
)


def key_of(mode: str, keys: tuple, args: tuple) -> Any:
    k, v, w = args
    if mode == "TASK":
        return "task"
    if mode == "ARGUMENTS":
        return ("args", k, v, w)
    d = {"k": k, "v": v, "w": w}
    return ("keys",) + tuple(d[x] for x in keys)


class CMonitor(scen.Monitor):
    """Monitor + concurrency-check log."""

    def __init__(self, app: Any, clock: Any) -> None:
        super().__init__(app, clock)
        self.checks: list[dict[str, Any]] = []
        orch = app.orchestrator
        self._oc = orch.is_candidate_to_run_by_concurrency_control
        self._oa = orch.is_authorize_to_run_by_concurrency_control
        self.pops: list[dict[str, Any]] = []
        self._or = app.broker.retrieve_invocation

        def _retrieve() -> Any:
            got = self._or()
            self.pops.append({"inv": str(got) if got is not None else None, "actor": getattr(sched.current_actor(), "name", None), "us": self._us(), "seq": self._n()})
            return got

        app.broker.retrieve_invocation = _retrieve  # type: ignore[method-assign]
        orch.is_candidate_to_run_by_concurrency_control = lambda inv: self._chk("candidate", self._oc, inv)  # type: ignore[method-assign]
        orch.is_authorize_to_run_by_concurrency_control = lambda inv: self._chk("authorise", self._oa, inv)  # type: ignore[method-assign]

    def _chk(self, kind: str, fn: Any, inv: Any) -> bool:
        t0 = self._us()
        res = fn(inv)
        self.checks.append({"kind": kind, "inv": str(inv.invocation_id), "res": bool(res), "t0": t0, "t1": self._us(), "seq": self._n(),
                            "actor": getattr(sched.current_actor(), "name", None)})
        return res

    def detach(self) -> None:
        orch = self.app.orchestrator
        for n in ("_atomic_status_transition", "_register_new_invocations", "get_invocations_to_run",
                  "is_candidate_to_run_by_concurrency_control", "is_authorize_to_run_by_concurrency_control"):
            orch.__dict__.pop(n, None)


DET = vclock.DetUUID()


def execute(kind: str, case: dict, clock: vclock.VClock, shared: dict, policy_obj: Any = None, trace_funcs: set[str] | None = None) -> dict:
    """Run one case; returns observations for the oracle."""
    DET.reset()
    clock.us = 1_700_000_000_000_000
    from pynenc import context
    from pynenc.conf.config_task import ConcurrencyControlType as CC
    from pynenc.exceptions import RetryError
    from pynenc.invocation.status import InvocationStatus as S

    mode, keys = MODES[case["mode"]]
    opts = dict(running_concurrency=CC[mode], reroute_on_concurrency_control=case["reroute"], max_retries=2,
                parallel_batch_size=0 if case["path"] == "percall" else 100)
    if keys:
        opts["key_arguments"] = keys
    if kind == "sqlite":
        app = shared.get("app")
        if app is None:
            app = shared["app"] = apps.make_app("sqlite", cached_status_time=0.0, auto_final_invocation_purge_hours=0.0)
        else:
            app.purge()
            app.state_backend._runner_context_cache.clear()
            app.state_backend.invocation_threads.clear()
        app._tasks.clear()
    else:
        app = apps.make_app("mem", cached_status_time=0.0, auto_final_invocation_purge_hours=0.0)
    task = app.task(tasks.keyed, **opts)
    tasks.reset_log()
    context.set_runner_context(app.app_id, apps.rctx("CLIENT"))
    mon = CMonitor(app, clock)
    subs = [tuple(x) for x in case["subs"]]
    args_of: dict[str, tuple] = {}
    parent_id = None
    try:
        if case["path"] == "call" or len(subs) == 1:
            invs = [task(*a) for a in subs]
        else:
            invs = list(task.parallelize(subs).invocations)
        for inv, a in zip(invs, subs):
            args_of[str(inv.invocation_id)] = a
        if case.get("waited"):
            ptask = app.task(tasks.other)
            p = ptask("parent")
            parent_id = str(p.invocation_id)
            # the parent's own message is consumed and the parent is RUNNING under runner P, waiting on all children
            q = whitebox.queue_ids(app)
            P = apps.rctx("P")
            for _ in range(len(q)):
                m = app.broker.retrieve_invocation()
                if m != p.invocation_id:
                    app.broker.route_invocation(m)
            app.orchestrator.set_invocation_status(p.invocation_id, S.PENDING, P)
            app.orchestrator.set_invocation_status(p.invocation_id, S.RUNNING, P)
            app.orchestrator.waiting_for_results(p.invocation_id, [i.invocation_id for i in invs])
        apps.flush(app)
        attempts: dict[str, int] = {}

        def body(k, v, w):
            inv = context.get_dist_invocation_context(app.app_id)
            rc = context.get_runner_context(app.app_id)
            iid = str(inv.invocation_id)
            mon.body("enter", iid, rc.runner_id if rc else None)
            try:
                s = sched.active()
                if s is not None:
                    for _ in range(3):
                        s.yield_point("body")
                    if case.get("slow"):
                        s.sleep(0.0025)  # a body that outlasts a couple of poll rounds
                attempts[iid] = attempts.get(iid, 0) + 1
                if w == 1 and attempts[iid] == 1:
                    raise RetryError("first attempt")
            finally:
                mon.body("exit", iid, rc.runner_id if rc else None)

        tasks.HOOKS["keyed_body"] = body
        rng = random.Random(case["sseed"])
        if case["policy"] == "np":
            policy: sched.Policy = sched.NonPreemptive({})
        elif case["policy"] == "pct":
            policy = sched.PCT(rng, 3, 600 if kind == "mem" else 120)
        else:
            policy = sched.RandomFair(rng, 0.12 if kind == "mem" else 0.3)
        tf = sched.trace_file_set(*MEM_FILES) if kind == "mem" else set()
        if policy_obj is not None:
            policy = policy_obj
        s = sched.Scheduler(policy, clock=clock, trace_files=tf, max_steps=150_000, trace_funcs=trace_funcs if kind == "mem" else None)
        poll_errors: list[dict[str, Any]] = []

        def runner(rid: str, slots: int, rounds: int):
            rc = apps.rctx(rid)

            def worker(inv):
                def w():
                    try:
                        inv.run(rc)
                    except Exception:  # noqa: BLE001 - run re-raises task errors after recording them
                        pass
                return w

            def f():
                n = 0
                for _ in range(rounds):
                    try:
                        for inv in app.orchestrator.get_invocations_to_run(slots, rc):
                            n += 1
                            s.spawn(f"w-{rid}-{n}", worker(inv))
                    except Exception as exc:  # noqa: BLE001
                        st_from = getattr(exc, "from_status", None)
                        st_to = getattr(exc, "to_status", None)
                        import traceback as _tb

                        frames = [fr.name for fr in _tb.extract_tb(exc.__traceback__) if "/pynenc/orchestrator/" in fr.filename]
                        poll_errors.append({"runner": rid, "type": type(exc).__name__, "from": getattr(st_from, "name", None), "to": getattr(st_to, "name", None), "msg": str(exc)[:160], "where": frames})
                    s.sleep(0.001)

            return f

        for rid, slots, rounds in case["runners"]:
            s.spawn(f"r-{rid}", runner(rid, slots, rounds))
        if case.get("purger"):
            # the application's housekeeping: final invocations are due at once (purge period 0 h); purging them must not
            # disturb the concurrency bookkeeping of the live ones
            def purger():
                for _ in range(6):
                    try:
                        app.orchestrator.auto_purge()
                    except Exception as exc:  # noqa: BLE001
                        poll_errors.append({"runner": "purger", "type": type(exc).__name__, "from": None, "to": None, "msg": str(exc)[:160]})
                    s.sleep(0.002)

            s.spawn("purger", purger)
        s.run()
        obs = {
            "failure": s.failure,
            "steps": s.step,
            "choices": list(s.choices),
            "mon": mon,
            "args_of": args_of,
            "parent": parent_id,
            "poll_errors": poll_errors,
            "queue": [str(x) for x in whitebox.queue_ids(app)] if s.failure is None else [],
            "status": {},
            "mode": (mode, keys),
            "actor_errors": [f"{a.name}: {type(a.exc).__name__}: {a.exc}"[:200] for a in s.actors if a.exc is not None],
            "sched": s,
        }
        if s.failure is None:
            for iid in args_of:
                try:
                    r = app.orchestrator.get_invocation_status_record(iid)
                    obs["status"][iid] = (r.status.name, r.runner_id)
                except KeyError:
                    obs["status"][iid] = ("PURGED", None)
        return obs
    finally:
        mon.detach()


def judge(case: dict, obs: dict) -> list[tuple[str, str]]:
    mode, keys = obs["mode"]
    mon: CMonitor = obs["mon"]
    args_of = obs["args_of"]
    problems: list[tuple[str, str]] = []
    key = {iid: key_of(mode, keys, a) for iid, a in args_of.items()}
    # ---- replay of the log ------------------------------------------------
    events: list[tuple[int, int, str, dict]] = []
    for t in mon.transitions:
        if t["inv"] in key:
            events.append((t["us"], t["seq"], "T", t))
    events.sort(key=lambda e: (e[0], e[1]))
    status: dict[str, str] = {}
    claimed_by: dict[str, str] = {}
    # per invocation: intervals [enter_us, enter_vis, leave_us, leave_vis] for "active" (PENDING/RUNNING) and for RUNNING
    active: dict[str, list[list[int]]] = {}
    running: dict[str, list[list[int]]] = {}
    INF = 1 << 62
    for us, _, _, t in events:
        iid, st = t["inv"], t["status"]
        prev = status.get(iid)
        status[iid] = st
        if st in ("PENDING", "RUNNING") and prev not in ("PENDING", "RUNNING"):
            active.setdefault(iid, []).append([us, t["vis"], INF, INF])
        if st not in ("PENDING", "RUNNING") and prev in ("PENDING", "RUNNING"):
            active[iid][-1][2:] = [us, t["vis"]]
        if prev == "RUNNING" and st != "RUNNING":
            running[iid][-1][2:] = [us, t["vis"]]
        if st == "PENDING":
            claimed_by[iid] = t["by"]
        if st == "RUNNING":
            running.setdefault(iid, []).append([us, t["vis"], INF, INF])
            others = [j for j, sj in status.items() if j != iid and sj == "RUNNING" and key[j] == key[iid]]
            for j in others:
                auth = [c for c in mon.checks if c["kind"] == "authorise" and c["inv"] == iid and c["t1"] <= us]
                last_auth = auth[-1] if auth else None
                jr = running[j][-1]
                if last_auth is None:
                    kind_ = "no-authorisation-check"
                elif not last_auth["res"]:
                    kind_ = "ran-despite-denied-authorisation"
                elif jr[1] < last_auth["t0"]:
                    # j's RUNNING was visible before the check started and j is still RUNNING now: the check must have seen it
                    kind_ = "authorised-while-running"
                elif claimed_by.get(iid) == claimed_by.get(j):
                    kind_ = "stale-authorisation-same-runner"
                else:
                    kind_ = "stale-authorisation-different-runners"
                problems.append((f"two-running:{kind_}", f"{iid[:8]} and {j[:8]} both RUNNING with key {key[iid]} (args {args_of[iid]} / {args_of[j]})"))
        if st in ("CONCURRENCY_CONTROLLED", "CONCURRENCY_CONTROLLED_FINAL"):
            # the block decision needs a same-key invocation that may have been PENDING/RUNNING at some instant of the deciding check
            cands = [c for c in mon.checks if c["kind"] == "candidate" and c["inv"] == iid and not c["res"] and c["t1"] <= us]
            if cands:
                lo, hi = cands[-1]["t0"], cands[-1]["t1"]
                ok = False
                for j, ivs in active.items():
                    if j != iid and key[j] == key[iid]:
                        for a0, a1, b0, b1 in ivs:
                            if a0 <= hi and b1 >= lo:
                                ok = True
                if not ok:
                    problems.append(("blocked-without-same-key-holder", f"{iid[:8]} (key {key[iid]}) was blocked ({st}) but no same-key invocation was PENDING/RUNNING during the deciding check"))
            if st == "CONCURRENCY_CONTROLLED_FINAL" and case["reroute"]:
                problems.append(("final-despite-reroute-option", f"{iid[:8]} ended CONCURRENCY_CONTROLLED_FINAL although reroute_on_concurrency_control is on"))
            if st == "CONCURRENCY_CONTROLLED" and not case["reroute"]:
                problems.append(("rerouted-despite-option-off", f"{iid[:8]} became CONCURRENCY_CONTROLLED although reroute_on_concurrency_control is off"))
    # ---- block decisions on the queue path for invocations the lifecycle cannot mark -----------
    def status_at(iid: str, us: int) -> str | None:
        st_ = None
        for eus, _, _, t in events:
            if t["inv"] == iid and t["vis"] <= us:
                st_ = t["status"]
        return st_

    for c in mon.checks:
        if c["kind"] != "candidate" or c["res"]:
            continue
        pops = [p for p in mon.pops if p["actor"] == c["actor"] and p["seq"] < c["seq"]]
        if not pops or pops[-1]["inv"] != c["inv"]:
            continue  # blocking-priority path: a denied candidate is simply skipped there
        st0 = status_at(c["inv"], c["t0"])
        if st0 == "RETRY" and not case["reroute"]:
            problems.append(("blocked-unmarkable:RETRY:reroute_off", f"{c['inv'][:8]} was RETRY when blocked with rerouting off: it cannot become CONCURRENCY_CONTROLLED_FINAL (no edge) and is re-queued instead"))
        if st0 == "REROUTED" and not case["reroute"]:
            problems.append(("blocked-unmarkable:REROUTED:reroute_off", f"{c['inv'][:8]} was REROUTED when blocked with rerouting off: it cannot become CONCURRENCY_CONTROLLED_FINAL (no edge) and is re-queued instead"))
    # ---- polls must not fail ------------------------------------------------
    for e in obs["poll_errors"]:
        if case.get("purger") and e["type"] == "KeyError" and any("blocking" in w for w in e.get("where", [])):
            # artefact of the purge period 0 used to compress housekeeping into the scenario: an invocation can become final
            # AND be purged between two reads of one poll, which a real purge period (final for the whole period) excludes.
            # Only the blocking-list reads are excused; the leftover-message variant (queue path), which does not depend on
            # that compression, was a genuine defect (b1ed0d9).
            continue
        problems.append((f"poll-raises:{e['type']}:{e['from']}->{e['to']}", f"poll of runner {e['runner']} raised {e['type']}: {e['msg']}"))
    # ---- quiescence: blocked invocations end final or re-queued ---------------
    if not obs["poll_errors"]:
        for iid, (st, owner) in obs["status"].items():
            if st in L.FINAL or st == "PURGED":
                continue
            if st in L.AVAILABLE:
                if iid not in obs["queue"]:
                    problems.append(("available-not-queued", f"{iid[:8]} is {st} at quiescence but not in the queue"))
            else:
                problems.append((f"stranded:{st}", f"{iid[:8]} is {st} (owner {owner}) at quiescence with no live worker"))
    for e in obs["actor_errors"]:
        problems.append(("actor-exception", e))
    return problems


def case_strategy():
    from hypothesis import strategies as st

    sub = st.tuples(st.integers(1, 2), st.integers(0, 1), st.integers(0, 1))
    runners = st.lists(st.tuples(st.sampled_from(["A", "B", "C"]), st.integers(1, 3), st.integers(1, 4)), min_size=1, max_size=3, unique_by=lambda r: r[0])
    return st.fixed_dictionaries({
        "mode": st.integers(0, len(MODES) - 1),
        "reroute": st.booleans(),
        "path": st.sampled_from(["call", "call", "percall", "batch"]),
        "waited": st.sampled_from([False, False, True]),
        "purger": st.sampled_from([False, False, True]),
        "slow": st.sampled_from([False, False, True]),
        "subs": st.lists(sub, min_size=1, max_size=5),
        "runners": runners,
        "policy": st.sampled_from(["rand", "rand", "pct", "np"]),
        "sseed": st.integers(0, 10_000),
    })


def nontrivial(case: dict) -> bool:
    mode, keys = MODES[case["mode"]]
    ks = [key_of(mode, keys, tuple(a)) for a in case["subs"]]
    if mode == "TASK":
        return len(ks) >= 2
    return len(ks) - len(set(ks)) >= 1 and len(set(ks)) >= 2


def shard(kind: str, seed: int, examples: int, known: list[str], part_name: str = "cases", history: bool = False) -> dict:
    import hypothesis
    from hypothesis import given

    part = Part(part_name, RULE)
    rep = Reporter(part, known)
    clock = vclock.VClock(tick_us=1)
    cinst = vclock.install(clock)
    vclock.install_uuid(DET, cinst)
    sched.install_clock_sleep(clock)
    inst = sched.install_threading()
    if kind == "sqlite":
        sched.install_sqlite(inst)
    shared: dict = {}

    @hypothesis.seed(seed)
    @make_settings(examples)
    @given(case=case_strategy())
    def prop(case):
        obs = execute(kind, case, clock, shared)
        rep.holder["case"] = {"backend": kind, **case}
        mode, keys = obs["mode"]
        part.case(key=(kind, case), nontrivial=nontrivial(case),
                  classes=[f"backend_{kind}", f"mode_{mode}{len(keys) or ''}", f"path_{case['path']}", "waited" if case.get("waited") else "plain", "purger" if case.get("purger") else "no_purger",
                           f"runners{len(case['runners'])}", "reroute_on" if case["reroute"] else "reroute_off", f"policy_{case['policy']}",
                           "with_retry" if any(a[2] == 1 for a in case["subs"]) else "no_retry",
                           "poll_raised" if obs["poll_errors"] else "polls_ok"],
                  sample={"backend": kind, **case, "steps": obs["steps"], "final": sorted(v[0] for v in obs["status"].values())})
        if obs["failure"] is not None:
            if isinstance(obs["failure"], sched.Budget):
                part.notes.append("inconclusive (budget)")
                return
            rep.fail(f"{part_name}:{kind}:deadlock", str(obs["failure"]))
            return
        probs = judge(case, obs) if not history else scen.history_problems(shared.get("app") or obs["mon"].app, obs["mon"])
        for pk, msg in probs:
            rep.fail(f"{part_name}:{pk}" if not history else f"{part_name}:{kind}:{pk}", f"[{kind}] {msg}")

    try:
        run_given(rep, prop, f"{part_name}:{kind}", max_buckets=5)
    finally:
        inst.uninstall()
        cinst.uninstall()
    return part.dump()


# directed probes that re-confirm each listed known finding on every run
PROBES = [
    # a RETRY invocation blocked with the reroute option on: RETRY -> CONCURRENCY_CONTROLLED is not an edge
    {"mode": 0, "reroute": True, "path": "call", "waited": False, "subs": [(1, 0, 1), (1, 1, 0)], "runners": [("A", 1, 4)], "policy": "np", "sseed": 0},
    {"mode": 0, "reroute": False, "path": "call", "waited": False, "subs": [(1, 0, 1), (1, 1, 0)], "runners": [("A", 1, 4)], "policy": "np", "sseed": 0},
]


# saved inputs of repaired defects + directed families the random search reaches too rarely (replayed on every run)
REGRESSIONS = [
]
# housekeeping while same-key work is in flight: an old final invocation is purged, its key must stay guarded
for _mode in (1, 2):
    for _ss in range(12):
        REGRESSIONS.append({"mode": _mode, "reroute": True, "path": "call", "waited": False, "purger": True, "slow": True, "subs": [(1, 0, 0)] * 3,
                            "runners": [("A", 1, 6), ("B", 1, 6)], "policy": "rand", "sseed": _ss})


RULE_W = (
    "complete search over schedules with <= 2 forced switches (yield points restricted to the Mem status-index / concurrency-lookup functions) of "
    "small same-key workloads on one or two runners; same oracle as the cases part; non-trivial = >= 1 forced switch; distinct = (workload, switch positions)"
)
WINDOW_FUNCS = {"_interanl_atomic_status_transition", "_atomic_status_transition", "filter_by_statuses", "filter_by_key_arguments", "get_existing_invocations", "index_arguments_for_concurrency_control"}
WINDOW_CASES = [
    {"mode": 0, "reroute": False, "path": "call", "waited": False, "subs": [(1, 0, 0), (1, 0, 0)], "runners": [("A", 2, 1)], "policy": "np", "sseed": 0},
    {"mode": 1, "reroute": False, "path": "call", "waited": False, "subs": [(1, 0, 0), (1, 0, 0)], "runners": [("A", 2, 1)], "policy": "np", "sseed": 0},
]


def window_shard(case_idx: int, part_i: int, part_n: int, p_max: int, known: list[str], newest_first: bool = False) -> dict:
    from verif import explore

    part = Part("index-windows", RULE_W)
    clock = vclock.VClock(tick_us=1)
    cinst = vclock.install(clock)
    vclock.install_uuid(DET, cinst)
    sched.install_clock_sleep(clock)
    inst = sched.install_threading()
    case = WINDOW_CASES[case_idx]
    try:
        def run_with(policy):
            obs = execute("mem", case, clock, {}, policy_obj=policy, trace_funcs=WINDOW_FUNCS)
            s_ = obs["sched"]
            s_.obs = obs  # type: ignore[attr-defined]
            return s_

        for pre, s_ in explore.dfs_preemptions(run_with, p_max, part=(part_i, part_n), newest_first=newest_first):
            obs = s_.obs
            part.case(key=(case_idx, newest_first, tuple(sorted(pre.items()))), nontrivial=len(pre) >= 1, classes=[f"workload_{case_idx}", f"forced{len(pre)}", "free_choice_newest" if newest_first else "free_choice_oldest"],
                      sample={"backend": "mem", **case, "forced_switches": sorted(pre.items()), "free_choice": "newest" if newest_first else "oldest", "steps": obs["steps"]})
            if obs["failure"] is not None:
                continue
            for pk, msg in judge(case, obs):
                key = f"cases:{pk}"
                if key in known:
                    part.known(key)
                else:
                    part.violation(key, f"[mem] {msg}", {"backend": "mem", **case, "window_pre": sorted(pre.items()), "window_newest": newest_first})
    finally:
        inst.uninstall()
        cinst.uninstall()
    return part.dump()


def probe_shard(kind: str, known: list[str]) -> dict:
    part = Part("probes", "directed re-runs of the cases behind the listed known findings (counted separately from the search)")
    clock = vclock.VClock(tick_us=1)
    cinst = vclock.install(clock)
    vclock.install_uuid(DET, cinst)
    sched.install_clock_sleep(clock)
    inst = sched.install_threading()
    if kind == "sqlite":
        sched.install_sqlite(inst)
    try:
        for case in PROBES + REGRESSIONS:
            obs = execute(kind, case, clock, {})
            part.case(key=(kind, case), nontrivial=True, classes=[f"backend_{kind}"], sample={"backend": kind, **case})
            if obs["failure"] is None:
                for pk, msg in judge(case, obs):
                    key = f"cases:{pk}"
                    if key in known:
                        part.known(key)
                    else:
                        part.violation(key, f"[{kind}] {msg}", {"backend": kind, **case})
    finally:
        inst.uninstall()
        cinst.uninstall()
    return part.dump()


def run(ctx: Ctx) -> None:
    known = sorted(ctx.known_keys())
    n = ncpu()
    ex_mem, ex_sql = (150, 70) if ctx.quick else (2500, 1200)
    jobs = [("mem", ctx.seed * 1000 + k, ex_mem, known) for k in range(n // 2)] + [("sqlite", ctx.seed * 1000 + 500 + k, ex_sql, known) for k in range(n - n // 2)]
    merge_parts(ctx, pmap(shard, jobs))
    merge_parts(ctx, pmap(probe_shard, [("mem", known), ("sqlite", known)]))
    nsh = 8
    merge_parts(ctx, pmap(window_shard, [(ci, j, nsh, 2, known, nf) for ci in range(1 if ctx.quick else len(WINDOW_CASES)) for j in range(nsh) for nf in (False, True)]))
    ctx.assumptions.append("concurrency keys are computed by the harness from the submitted arguments (TASK: the task; ARGUMENTS: all three arguments; KEYS: the declared key arguments)")
    ctx.assumptions.append("runner model: per round one poll for `slots` invocations, one worker actor per yielded invocation; bodies take 3 scheduling steps")


def history_jobs(ctx: Ctx, known: list[str]) -> list[tuple]:
    ex = 12 if ctx.quick else 400
    return [("mem", ctx.seed * 1000 + 70 + k, ex, known, "c06-executions", True) for k in range(4)] + [("sqlite", ctx.seed * 1000 + 80 + k, ex, known, "c06-executions", True) for k in range(4)]


def history_shard(*a: Any) -> dict:
    return shard(*a)


def replay(case: dict) -> int:
    c = dict(case["case"])
    kind = c.pop("backend")
    c["subs"] = [tuple(x) for x in c["subs"]]
    c["runners"] = [tuple(x) for x in c["runners"]]
    clock = vclock.VClock(tick_us=1)
    cinst = vclock.install(clock)
    vclock.install_uuid(DET, cinst)
    sched.install_clock_sleep(clock)
    inst = sched.install_threading()
    if kind == "sqlite":
        sched.install_sqlite(inst)
    try:
        pre = c.pop("window_pre", None)
        newest = c.pop("window_newest", False)
        if pre is not None:
            obs = execute(kind, c, clock, {}, policy_obj=sched.NonPreemptive({int(a): int(b) for a, b in pre}, newest), trace_funcs=WINDOW_FUNCS)
        else:
            obs = execute(kind, c, clock, {})
        probs = judge(c, obs)
        for p in probs:
            print("REPRODUCED:", p)
        return 1 if probs else 0
    finally:
        inst.uninstall()
        cinst.uninstall()
