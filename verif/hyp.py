"""Hypothesis driving helpers: seeds, settings, collect-then-bucket failure handling."""

from __future__ import annotations

import traceback
from typing import Any, Callable

import hypothesis
from hypothesis import HealthCheck, Phase, settings
from hypothesis.stateful import run_state_machine_as_test

from verif.core import Part


class Fail(AssertionError):
    def __init__(self, key: str, msg: str) -> None:
        super().__init__(f"{key} :: {msg}")
        self.key = key
        self.msg = msg


class Reporter:
    """Routes oracle failures: known finding -> counted and excluded (search continues),
    bucket already collected in this run -> ignored, otherwise raised for shrinking."""

    def __init__(self, part: Part, known: list[str] | set[str]) -> None:
        self.part = part
        self.known = set(known)
        self.collected: set[str] = set()
        self.holder: dict[str, Any] = {}
        self.last_fail: tuple[str, str, Any] | None = None

    def fail(self, key: str, msg: str) -> None:
        if key in self.known:
            self.part.known(key)
            return
        if key in self.collected:
            return
        self.last_fail = (key, msg, self.holder.get("case"))
        raise Fail(key, msg)

    def check(self, cond: bool, key: str, msg: str = "") -> None:
        if not cond:
            self.fail(key, msg or key)


def make_settings(examples: int, steps: int | None = None, shrink: bool = True) -> settings:
    import os

    if os.environ.get("VERIF_NOSHRINK"):
        shrink = False  # ./selftest: a caught seeded defect needs no minimal reproduction
    kw: dict[str, Any] = dict(
        max_examples=examples,
        deadline=None,
        database=None,
        report_multiple_bugs=False,
        suppress_health_check=list(HealthCheck),
        phases=[Phase.generate, Phase.shrink] if shrink else [Phase.generate],
        print_blob=False,
    )
    if steps is not None:
        kw["stateful_step_count"] = steps
    return settings(**kw)


def _bucket_of(exc: BaseException, prefix: str) -> tuple[str, str]:
    if isinstance(exc, Fail):
        return exc.key, exc.msg
    tb = traceback.extract_tb(exc.__traceback__)
    where = ""
    for fr in reversed(tb):
        if "/pynenc/" in fr.filename or "/pynmon/" in fr.filename:
            where = f"{fr.filename.split('/repo/')[-1]}:{fr.name}"
            break
    return f"{prefix}:exc:{type(exc).__name__}@{where}", f"{type(exc).__name__}: {exc}"[:300]


def _find_fail(exc: BaseException) -> BaseException | None:
    if isinstance(exc, Fail):
        return exc
    for sub in getattr(exc, "exceptions", ()) or ():
        f = _find_fail(sub)
        if f is not None:
            return f
    seen = 0
    cur = exc
    while cur is not None and seen < 8:
        cur = cur.__cause__ or cur.__context__
        seen += 1
        if isinstance(cur, Fail):
            return cur
        if cur is not None and getattr(cur, "exceptions", None):
            f = _find_fail(cur)
            if f is not None:
                return f
    return None


def drive(rep: Reporter, run_once: Callable[[], None], prefix: str, max_buckets: int = 3) -> None:
    """Run a hypothesis test; every new failure bucket is recorded (with the shrunk case the
    test left in rep.holder['case']) and excluded, then the search is repeated."""
    for _ in range(max_buckets):
        rep.holder.pop("case", None)
        rep.last_fail = None
        try:
            run_once()
            return
        except BaseException as exc:  # noqa: BLE001
            if isinstance(exc, (KeyboardInterrupt, SystemExit)):
                raise
            inner = _find_fail(exc)
            if inner is not None:
                if inner is not exc:
                    rep.part.notes.append("hypothesis reported the failure as flaky on re-execution: " + str(inner)[:120])
                exc = inner
            elif isinstance(exc, hypothesis.errors.HypothesisException):
                lf = rep.last_fail
                if lf is not None and lf[0] not in rep.collected and "lak" in type(exc).__name__:
                    # the oracle failed on the real code, but the failure did not repeat when hypothesis re-executed the same
                    # choices (behaviour depending on real time, e.g. SQL-side clocks): still a violation, reported un-shrunk
                    rep.part.notes.append(f"failure not reproducible on re-execution ({type(exc).__name__}): {lf[0]}")
                    if lf[0] in rep.known:
                        rep.part.known(lf[0])
                    else:
                        rep.part.violation(lf[0], lf[1] + " [observed once; not reproduced when the same case was re-executed]", lf[2])
                    rep.collected.add(lf[0])
                    rep.last_fail = None
                    continue
                raise
            key, msg = _bucket_of(exc, prefix)
            if key in rep.known:
                rep.part.known(key)
            else:
                rep.part.violation(key, msg, rep.holder.get("case"))
            if key in rep.collected:
                return  # cannot exclude by construction (unexpected exception path): stop here
            rep.collected.add(key)


def run_given(rep: Reporter, test: Callable[[], None], prefix: str, max_buckets: int = 3) -> None:
    drive(rep, test, prefix, max_buckets)


def run_machine(rep: Reporter, machine_cls: type, seed: int, sett: settings, prefix: str, max_buckets: int = 3) -> None:
    drive(rep, lambda: run_state_machine_as_test(hypothesis.seed(seed)(machine_cls), settings=sett), prefix, max_buckets)
