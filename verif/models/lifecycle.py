"""Reference model of the invocation lifecycle (DESIGN.md Appendix A.1).

Written from docs/usage_guide/invocation_status.md and the data-edge attributes of
docs/_static/invocation_state_machine.svg.  Does NOT import pynenc.invocation.status.
Statuses are plain upper-case strings (the enum member names).
"""

from __future__ import annotations

STATUSES = [
    "REGISTERED",
    "CONCURRENCY_CONTROLLED",
    "CONCURRENCY_CONTROLLED_FINAL",
    "REROUTED",
    "PENDING",
    "PENDING_RECOVERY",
    "RUNNING",
    "RUNNING_RECOVERY",
    "PAUSED",
    "RESUMED",
    "KILLED",
    "SUCCESS",
    "FAILED",
    "RETRY",
]

EDGES: frozenset[tuple[str, str]] = frozenset(
    {
        ("REGISTERED", "PENDING"),
        ("REGISTERED", "CONCURRENCY_CONTROLLED"),
        ("REGISTERED", "CONCURRENCY_CONTROLLED_FINAL"),
        ("CONCURRENCY_CONTROLLED", "REROUTED"),
        ("REROUTED", "PENDING"),
        ("REROUTED", "CONCURRENCY_CONTROLLED"),
        ("PENDING", "RUNNING"),
        ("PENDING", "KILLED"),
        ("PENDING", "REROUTED"),
        ("PENDING", "PENDING_RECOVERY"),
        ("PENDING_RECOVERY", "REROUTED"),
        ("RUNNING", "PAUSED"),
        ("RUNNING", "KILLED"),
        ("RUNNING", "RETRY"),
        ("RUNNING", "SUCCESS"),
        ("RUNNING", "FAILED"),
        ("RUNNING", "RUNNING_RECOVERY"),
        ("RUNNING_RECOVERY", "REROUTED"),
        ("PAUSED", "RESUMED"),
        ("PAUSED", "KILLED"),
        ("RESUMED", "PAUSED"),
        ("RESUMED", "KILLED"),
        ("RESUMED", "RETRY"),
        ("RESUMED", "SUCCESS"),
        ("RESUMED", "FAILED"),
        ("KILLED", "REROUTED"),
        ("RETRY", "PENDING"),
    }
)
assert len(EDGES) == 27

FINAL = frozenset({"SUCCESS", "FAILED", "CONCURRENCY_CONTROLLED_FINAL"})
OWNED = frozenset({"PENDING", "RUNNING", "PAUSED", "RESUMED"})
OVERRIDE = frozenset({"PENDING_RECOVERY", "RUNNING_RECOVERY"})
ACQUIRE = frozenset({"PENDING"})
KEEP = frozenset({"RUNNING", "PAUSED", "RESUMED"})
AVAILABLE = frozenset({"REGISTERED", "REROUTED", "RETRY"})

OK, TRANSITION_ERROR, OWNERSHIP_ERROR = "ok", "transition_error", "ownership_error"


def step(status: str | None, owner: str | None, target: str, requester: str | None):
    """-> (outcome, new_status, new_owner).  status None = invocation absent."""
    if status is None:
        if target == "REGISTERED":
            return (OK, "REGISTERED", None)
        return (TRANSITION_ERROR, None, None)
    if (status, target) not in EDGES:
        return (TRANSITION_ERROR, status, owner)
    if target in OVERRIDE:
        return (OK, target, None)
    if status in OWNED and requester != owner:
        return (OWNERSHIP_ERROR, status, owner)
    if target in ACQUIRE and not requester:
        return (OWNERSHIP_ERROR, status, owner)
    if target in ACQUIRE:
        return (OK, target, requester)
    if target in KEEP:
        return (OK, target, owner)
    return (OK, target, None)


def svg_edges(path: str) -> set[tuple[str, str]]:
    import re

    txt = open(path, encoding="utf-8").read()
    out = set()
    for m in re.finditer(r'data-edge="([A-Z_]+)->([A-Z_]+)"', txt):
        out.add((m.group(1), m.group(2)))
    return out
