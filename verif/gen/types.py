"""Module-level types used by generated values (serializers re-import classes by module + qualname)."""

from __future__ import annotations

from enum import Enum, IntEnum, StrEnum
from typing import Any


class Color(Enum):
    RED = "red"
    GREEN = "green"
    BLUE = 3


class Level(IntEnum):
    LOW = 1
    HIGH = 2


class Mode(StrEnum):
    FAST = "fast"
    SLOW = "slow"


class AppError(Exception):
    """Custom, module-level exception (positional args only)."""


class OtherError(Exception):
    pass


class RetriableError(Exception):
    pass


class Money:
    """JsonSerializable value object."""

    def __init__(self, amount: Any, currency: str) -> None:
        self.amount = amount
        self.currency = currency

    def to_json(self) -> dict:
        return {"amount": self.amount, "currency": self.currency}

    @classmethod
    def from_json(cls, data: dict) -> "Money":
        return cls(data["amount"], data["currency"])

    def __eq__(self, other: object) -> bool:
        return isinstance(other, Money) and (self.amount, self.currency) == (other.amount, other.currency)

    def __hash__(self) -> int:
        return hash((self.amount, self.currency))

    def __repr__(self) -> str:
        return f"Money({self.amount!r}, {self.currency!r})"
