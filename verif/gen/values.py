"""Recursive value strategies per serializer domain + structural equality (DESIGN.md 2.3)."""

from __future__ import annotations

import math
from typing import Any

from hypothesis import strategies as st

from verif.gen import types as T

RESERVED_PREFIXES = ("__pynenc__", "py/")
FILTERED = {"n": 0}


def _ok_text(s: str) -> bool:
    bad = any(s.startswith(p) for p in RESERVED_PREFIXES)
    if bad:
        FILTERED["n"] += 1
    return not bad


# no surrogates (not encodable), reserved prefixes excluded (reserved by serializer/constants.py and by jsonpickle)
text = st.text(alphabet=st.characters(blacklist_categories=("Cs",)), max_size=12).filter(_ok_text)
keys = st.text(alphabet=st.characters(blacklist_categories=("Cs",)), min_size=0, max_size=6).filter(_ok_text)
floats = st.one_of(st.floats(allow_nan=True, allow_infinity=True), st.sampled_from([-0.0, 0.0, 1e308, 5e-324, float("inf"), float("-inf"), float("nan")]))
ints = st.one_of(st.integers(-5, 5), st.integers(-(2**70), 2**70))
scalars = st.one_of(st.none(), st.booleans(), ints, floats, text)

enums = st.sampled_from([T.Color.RED, T.Color.BLUE, T.Level.LOW, T.Level.HIGH, T.Mode.FAST, T.Mode.SLOW])
exc_args = st.lists(st.one_of(st.none(), st.booleans(), st.integers(-5, 5), text), max_size=3)
exceptions = st.builds(lambda cls, args: cls(*args), st.sampled_from([ValueError, KeyError, RuntimeError, TypeError, ZeroDivisionError, T.AppError, T.OtherError]), exc_args)
money = st.builds(T.Money, st.one_of(st.integers(-5, 5), st.floats(allow_nan=False, allow_infinity=False, width=32)), st.sampled_from(["EUR", "USD", ""]))


def json_values(max_leaves: int = 12) -> st.SearchStrategy:
    leaves = st.one_of(scalars, enums, exceptions, money)
    return st.recursive(leaves, lambda ch: st.one_of(st.lists(ch, max_size=4), st.dictionaries(keys, ch, max_size=4)), max_leaves=max_leaves)


def _self_list(x: Any) -> list:
    l: list = [x]
    l.append(l)
    return l


def _parent_child(x: Any) -> dict:
    parent: dict = {"name": "parent", "payload": x, "children": []}
    child = {"name": "child", "parent": parent}
    parent["children"].append(child)
    return parent


def _shared(x: Any) -> list:
    inner = [x, "shared"]
    return [inner, inner, {"again": inner}]


def cyclic_values() -> st.SearchStrategy:
    """Object graphs with reference cycles / shared references (pickle-based serializers only)."""
    base = st.one_of(st.integers(-5, 5), text)
    return st.one_of(st.builds(_self_list, base), st.builds(_parent_child, base), st.builds(_shared, base))


def pickle_values(max_leaves: int = 12) -> st.SearchStrategy:
    hashable = st.one_of(st.none(), st.booleans(), st.integers(-5, 5), text, st.binary(max_size=6))
    leaves = st.one_of(scalars, enums, exceptions, money, st.binary(max_size=8))
    return st.one_of(cyclic_values(), st.recursive(
        leaves,
        lambda ch: st.one_of(
            st.lists(ch, max_size=4),
            st.tuples(ch, ch),
            st.dictionaries(keys, ch, max_size=4),
            st.frozensets(hashable, max_size=3),
            st.sets(hashable, max_size=3),
        ),
        max_leaves=max_leaves,
    ))


def jsonpickle_values(max_leaves: int = 12) -> st.SearchStrategy:
    return pickle_values(max_leaves)


def values_for(serializer: str, max_leaves: int = 12) -> st.SearchStrategy:
    return {"JsonSerializer": json_values, "JsonPickleSerializer": jsonpickle_values, "PickleSerializer": pickle_values}[serializer](max_leaves)


def sized(v: Any, pad: int) -> Any:
    """Pad a value so that its serialized size straddles an externalisation threshold."""
    return {"v": v, "pad": "x" * pad}


def depth(v: Any, _seen: frozenset = frozenset(), _lim: int = 12) -> int:
    if id(v) in _seen or _lim <= 0:
        return 0
    if isinstance(v, dict):
        return 1 + max((depth(x, _seen | {id(v)}, _lim - 1) for x in v.values()), default=0)
    if isinstance(v, (list, tuple, set, frozenset)):
        return 1 + max((depth(x, _seen | {id(v)}, _lim - 1) for x in v), default=0)
    return 0


def same(a: Any, b: Any, _memo: set | None = None) -> bool:
    """Structural, type-aware, NaN-aware equality; cycle-safe (a revisited pair is assumed equal,
    so two graphs are equal iff they unfold to the same infinite tree with the same sharing of containers)."""
    if _memo is None:
        _memo = set()
    if isinstance(a, (list, dict)) and isinstance(b, (list, dict)):
        key = (id(a), id(b))
        if key in _memo:
            return True
        _memo.add(key)
    return _same(a, b, _memo)


def _same(a: Any, b: Any, _memo: set) -> bool:
    if isinstance(a, float) and isinstance(b, float):
        if math.isnan(a) or math.isnan(b):
            return math.isnan(a) and math.isnan(b)
        return a == b and math.copysign(1, a) == math.copysign(1, b)
    if isinstance(a, BaseException) or isinstance(b, BaseException):
        return type(a) is type(b) and same(list(a.args), list(b.args), _memo)
    if type(a) is not type(b):
        return False
    if isinstance(a, dict):
        return a.keys() == b.keys() and all(same(a[k], b[k], _memo) for k in a)
    if isinstance(a, (list, tuple)):
        return len(a) == len(b) and all(same(x, y, _memo) for x, y in zip(a, b))
    if isinstance(a, (set, frozenset)):
        return a == b
    if isinstance(a, T.Money):
        return same(a.amount, b.amount, _memo) and a.currency == b.currency
    return a == b
