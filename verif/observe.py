"""snapshot(app): a canonical, hashable read-out of everything a user can observe (DESIGN 2.4).

Public component APIs are used wherever they exist; queue order, wait-graph rows and - for SQLite
apps - a dump of every table carrying the app's storage prefix are read white-box (read-only).
"""

from __future__ import annotations

import hashlib
from typing import Any

from verif import whitebox
from verif.core import canon


def _safe(fn: Any, default: Any = "ERR") -> Any:
    try:
        return fn()
    except Exception as exc:  # noqa: BLE001 - the read-out itself must not fail
        return f"{default}:{type(exc).__name__}"


def sqlite_tables(app: Any) -> dict[str, Any]:
    """All tables whose name starts with one of the app's component prefixes: row count + content digest."""
    comps = [app.orchestrator, app.broker, app.state_backend, app.trigger, app.client_data_store]
    out: dict[str, Any] = {}
    for c in comps:
        if not whitebox.is_sqlite(c):
            continue
        # exactly the tables the component's Tables object names (never by prefix: another app's
        # id may extend this app's prefix)
        own = sorted(v for k, v in vars(c.tables).items() if k.isupper() and isinstance(v, str))
        existing = {r[0] for r in whitebox.sql(c, "SELECT name FROM sqlite_master WHERE type='table'")}
        for n in own:
            if n not in existing:
                out[n] = None
                continue
            if n.endswith("_message_queue"):
                # row ids / insertion timestamps are not observable: the queue is its ids in delivery order
                rows = whitebox.sql(c, f'SELECT invocation_id FROM "{n}" ORDER BY created_at ASC, id ASC')
                digest = hashlib.sha1(repr(rows).encode()).hexdigest()[:12]
            else:
                rows = whitebox.sql(c, f'SELECT * FROM "{n}"')
                digest = hashlib.sha1(repr(sorted(map(repr, rows))).encode()).hexdigest()[:12]
            out[n] = (len(rows), digest)
    return out


def snapshot(app: Any, ids: list[str] | None = None, with_tables: bool = True, history: bool = True) -> dict[str, Any]:
    from pynenc.invocation.status import InvocationStatus as S

    orch, sb = app.orchestrator, app.state_backend
    snap: dict[str, Any] = {}
    snap["queue"] = _safe(lambda: [str(x) for x in whitebox.queue_ids(app)])
    snap["queue_count"] = _safe(app.broker.count_invocations)
    all_ids = _safe(lambda: sorted(str(x) for x in orch.get_invocation_ids_paginated(limit=10_000)), [])
    if isinstance(all_ids, str):
        all_ids = []
    known = sorted(set(all_ids) | set(ids or []))
    snap["ids"] = all_ids
    snap["count"] = _safe(orch.count_invocations)
    snap["per_status"] = {s.name: _safe(lambda s=s: orch.count_invocations(statuses=[s])) for s in S}
    inv: dict[str, Any] = {}
    for i in known:
        rec = _safe(lambda i=i: (lambda r: (r.status.name, r.runner_id, r.timestamp.isoformat()))(orch.get_invocation_status_record(i)))
        entry: dict[str, Any] = {"record": rec, "retries": _safe(lambda i=i: orch.get_invocation_retries(i))}
        if isinstance(rec, tuple) and rec[0] == "SUCCESS":
            entry["result"] = _safe(lambda i=i: (lambda r: (r[:80], len(r), hashlib.sha1(r.encode()).hexdigest()[:12]))(repr(sb.get_result(i))))
        if isinstance(rec, tuple) and rec[0] == "FAILED":
            entry["exception"] = _safe(lambda i=i: (lambda r: (r[:80], len(r), hashlib.sha1(r.encode()).hexdigest()[:12]))(repr(sb.get_exception(i))))
        if history:
            entry["history"] = _safe(lambda i=i: sorted((h.status_record.status.name, h.runner_context_id, h.status_record.timestamp.isoformat()) for h in sb.get_history(i)))
        entry["stored"] = _safe(lambda i=i: sb._get_invocation(i) is not None)
        # the stored call (what a runner would execute): task and serialized arguments, as kept by the state backend
        entry["call"] = _safe(lambda i=i: (lambda p: None if p is None else (str(getattr(p[1], "call_id", None)), sorted((k, str(v)[:60], hashlib.sha1(str(v).encode()).hexdigest()[:10]) for k, v in dict(getattr(p[1], "serialized_arguments", {}) or {}).items())))(sb._get_invocation(i)))
        inv[i] = entry
    snap["invocations"] = inv
    snap["wait_edges"] = _safe(lambda: sorted(whitebox.wait_edges(app)))
    snap["blocking"] = _safe(lambda: sorted(str(x) for x in orch.get_blocking_invocations(10_000)))
    snap["active_runners"] = _safe(lambda: sorted((r.runner_id, r.allow_to_run_atomic_service, r.last_heartbeat.isoformat(), str(r.last_service_start), str(r.last_service_end)) for r in orch._get_active_runners(1e12, None)))
    snap["workflow_runs"] = _safe(lambda: sorted(str(w.workflow_id) for w in sb.get_all_workflow_runs()))
    snap["workflow_types"] = _safe(lambda: sorted(t.key for t in sb.get_all_workflow_types()))
    tr = app.trigger
    snap["valid_conditions"] = _safe(lambda: sorted(tr.get_valid_conditions().keys()))
    snap["conditions"] = _safe(lambda: sorted(c.condition_id for c in tr._get_all_conditions()))
    cds = app.client_data_store
    if not whitebox.is_sqlite(cds) and hasattr(cds, "_storage"):
        # in-memory store: the externalised values this app can resolve (SQLite: covered by the table dump)
        snap["client_data_keys"] = _safe(lambda: sorted(cds._storage.keys()))
    if with_tables:
        snap["tables"] = _safe(lambda: sqlite_tables(app))
    return snap


def digest(snap: dict[str, Any]) -> str:
    return hashlib.sha1(canon(snap).encode()).hexdigest()[:16]


def diff(a: dict[str, Any], b: dict[str, Any], prefix: str = "") -> list[str]:
    out: list[str] = []
    for k in sorted(set(a) | set(b)):
        va, vb = a.get(k), b.get(k)
        if va == vb:
            continue
        if isinstance(va, dict) and isinstance(vb, dict):
            out.extend(diff(va, vb, f"{prefix}{k}."))
        else:
            out.append(f"{prefix}{k}: {str(va)[:160]} -> {str(vb)[:160]}")
    return out[:12]
