"""Scenario plumbing shared by the schedule-driven checks (C02, C05, C06, C10, C11 ...).

Monitor: an observer wrapped around one app *instance* (no source change) that logs every
successful status transition (as returned to the caller), every invocation yielded to a
runner, and task-body entries/exits - each stamped with the virtual clock.
"""

from __future__ import annotations

from typing import Any

from verif import apps, sched, tasks, vclock
from verif.models import lifecycle as L


class Monitor:
    def __init__(self, app: Any, clock: vclock.VClock | None = None) -> None:
        self.app = app
        self.clock = clock
        self.transitions: list[dict[str, Any]] = []
        self.rejected: list[dict[str, Any]] = []
        self.yields: list[dict[str, Any]] = []
        self.bodies: list[dict[str, Any]] = []
        self.poll_errors: list[str] = []
        self.seq = 0
        orch = app.orchestrator
        self._orig_ast = orch._atomic_status_transition
        self._orig_reg = orch._register_new_invocations
        self._orig_poll = orch.get_invocations_to_run
        orch._atomic_status_transition = self._ast  # type: ignore[method-assign]
        orch._register_new_invocations = self._reg  # type: ignore[method-assign]
        orch.get_invocations_to_run = self._poll  # type: ignore[method-assign]

    def _n(self) -> int:
        self.seq += 1
        return self.seq

    @staticmethod
    def _step() -> int | None:
        s = sched.active()
        return s.step if s is not None else None

    def _us(self, rec: Any = None) -> int:
        """Record time of a change, or (no record) a fresh tick of the virtual clock so that every
        monitor event has its own instant, comparable with record timestamps."""
        if rec is not None:
            ts = rec.timestamp
            return int(round(ts.timestamp() * 1_000_000))
        if self.clock is not None:
            return self.clock._read() if self.clock.tick_us else self.clock.us
        return self._n()

    def _ast(self, invocation_id: Any, status: Any, runner_id: Any = None) -> Any:
        try:
            rec = self._orig_ast(invocation_id, status, runner_id)
        except Exception as exc:
            self.rejected.append({"inv": str(invocation_id), "status": status.name, "by": runner_id, "err": type(exc).__name__, "seq": self._n()})
            raise
        # "us" = record time (taken inside the atomic section), "vis" = an instant after the call returned:
        # the change became visible to readers somewhere in [us, vis]
        self.transitions.append({"inv": str(invocation_id), "status": rec.status.name, "by": runner_id, "owner": rec.runner_id,
                                 "us": self._us(rec), "vis": self._us(), "seq": self._n(), "actor": getattr(sched.current_actor(), "name", None), "step": self._step()})
        return rec

    def _reg(self, invocations: Any, runner_id: Any = None) -> Any:
        rec = self._orig_reg(invocations, runner_id)
        for inv in invocations:
            self.transitions.append({"inv": str(inv.invocation_id), "status": rec.status.name, "by": runner_id, "owner": rec.runner_id,
                                     "us": self._us(rec), "vis": self._us(), "seq": self._n(), "actor": getattr(sched.current_actor(), "name", None), "step": self._step()})
        return rec

    def _poll(self, max_num_invocations: int, runner_ctx: Any) -> Any:
        for inv in self._orig_poll(max_num_invocations, runner_ctx):
            self.yields.append({"inv": str(inv.invocation_id), "runner": runner_ctx.runner_id, "seq": self._n(), "us": self._us()})
            yield inv

    def body(self, event: str, inv_id: str, runner: str | None = None) -> None:
        self.bodies.append({"event": event, "inv": str(inv_id), "seq": self._n(), "us": self._us(), "runner": runner})

    # ---- derived views -----------------------------------------------------
    def per_invocation(self) -> dict[str, list[dict[str, Any]]]:
        out: dict[str, list[dict[str, Any]]] = {}
        for t in sorted(self.transitions, key=lambda t: (t["us"], t["seq"])):
            out.setdefault(t["inv"], []).append(t)
        return out


def lifecycle_problems(mon: Monitor) -> list[tuple[str, str]]:
    """Replay the accepted-transition log of every invocation through the reference model."""
    problems: list[tuple[str, str]] = []
    for inv, ts in mon.per_invocation().items():
        status: str | None = None
        owner: str | None = None
        path = []
        for t in ts:
            path.append(f"{t['status']}@{t['by']}")
            if status is None:
                if t["status"] != "REGISTERED":
                    problems.append(("first-not-registered", f"{inv}: first transition {t['status']}"))
                status, owner = t["status"], None
                continue
            out, ns, no = L.step(status, owner, t["status"], t["by"])
            if out != L.OK:
                if status == "PENDING" and t["status"] == "PENDING":
                    problems.append(("double-claim", f"{inv}: claimed by {t['by']} while PENDING under {owner} without a release; path={path}"))
                elif out == L.OWNERSHIP_ERROR:
                    problems.append(("foreign-move", f"{inv}: {status}/{owner} moved to {t['status']} by non-owner {t['by']}; path={path}"))
                else:
                    problems.append(("illegal-edge", f"{inv}: accepted transition {status}->{t['status']} is not an edge; path={path}"))
                # resynchronise on what the implementation says
                status, owner = t["status"], t["owner"]
                continue
            if t["owner"] != no:
                problems.append(("owner-mismatch", f"{inv}: after {t['status']} by {t['by']} owner is {t['owner']} expected {no}"))
            status, owner = ns, no
    return problems


def yield_problems(mon: Monitor) -> list[tuple[str, str]]:
    """An id handed to a runner must correspond to a successful claim by that runner."""
    problems = []
    claims: dict[tuple[str, str], int] = {}
    for t in mon.transitions:
        if t["status"] == "PENDING":
            claims[(t["inv"], t["by"])] = claims.get((t["inv"], t["by"]), 0) + 1
    ys: dict[tuple[str, str], int] = {}
    for y in mon.yields:
        ys[(y["inv"], y["runner"])] = ys.get((y["inv"], y["runner"]), 0) + 1
    for k, n in ys.items():
        if n > claims.get(k, 0):
            problems.append(("yield-without-claim", f"invocation {k[0]} yielded {n}x to runner {k[1]} with {claims.get(k, 0)} successful claims"))
    return problems


def body_problems(mon: Monitor) -> list[tuple[str, str]]:
    """Body executions of one invocation never overlap unless a kill/recovery lies between the first one's RUNNING write and the second one's start."""
    problems = []
    per: dict[str, list[dict[str, Any]]] = {}
    for b in sorted(mon.bodies, key=lambda b: b["seq"]):
        per.setdefault(b["inv"], []).append(b)
    trans = mon.per_invocation()
    for inv, evs in per.items():
        open_enters: list[dict[str, Any]] = []
        for e in evs:
            if e["event"] == "enter":
                for o in open_enters:
                    # the earlier execution's hold starts with its RUNNING write (not with the first statement of the body): a kill or
                    # recovery after that write releases the invocation although the doomed execution may still be (or get) inside the body
                    ts_ = trans.get(inv, [])
                    runs = [t["seq"] for t in ts_ if t["status"] == "RUNNING" and t["by"] == o["runner"] and t["seq"] < o["seq"]]
                    start = runs[-1] if runs else o["seq"]
                    between = [t for t in ts_ if start < t["seq"] < e["seq"] and t["status"] in ("KILLED", "PENDING_RECOVERY", "RUNNING_RECOVERY")]
                    # ... or the entering execution is itself the doomed one (killed after its RUNNING write, before it got into the body)
                    runs_e = [t["seq"] for t in ts_ if t["status"] == "RUNNING" and t["by"] == e["runner"] and t["seq"] < e["seq"]]
                    if runs_e and not between:
                        between = [t for t in ts_ if runs_e[-1] < t["seq"] < e["seq"] and t["status"] in ("KILLED", "PENDING_RECOVERY", "RUNNING_RECOVERY")]
                    if not between:
                        problems.append(("body-overlap", f"{inv}: body entered by {e['runner']} while still executing under {o['runner']} without kill/recovery in between"))
                open_enters.append(e)
            elif e["event"] == "exit":
                for o in list(open_enters):
                    if o["runner"] == e["runner"]:
                        open_enters.remove(o)
                        break
    return problems


def history_problems(app: Any, mon: Monitor) -> list[tuple[str, str]]:
    """C10: stored history (ordered by the time of the change) == monitor log, per invocation."""
    problems = []
    apps.flush(app)
    for inv, ts in mon.per_invocation().items():
        hist = app.state_backend.get_history(inv)
        hist = sorted(hist, key=lambda h: (h.status_record.timestamp, h.timestamp))
        got = [(h.status_record.status.name, h.runner_context_id) for h in hist]
        exp = [(t["status"], t["by"]) for t in ts]
        if [g[0] for g in got] != [e[0] for e in exp]:
            gs, es = [g[0] for g in got], [e[0] for e in exp]
            if len(gs) < len(es):
                kind = "history-missing-entry"
            elif len(gs) > len(es):
                kind = "history-extra-entry"
            else:
                kind = "history-order"
            problems.append((kind, f"{inv}: stored {gs} but status changes were {es}"))
            continue
        for g, e in zip(got, exp):
            if e[1] is not None and g[1] != e[1]:
                problems.append(("history-wrong-runner", f"{inv}: entry {g[0]} names runner {g[1]} but the change was made by {e[1]}"))
                break
        if got and got[0][0] != "REGISTERED":
            problems.append(("history-first-not-registered", f"{inv}: {got[0]}"))
        try:
            cur = app.orchestrator.get_invocation_status(inv).name
        except KeyError:
            cur = None
        if got and cur is not None and got[-1][0] != cur:
            problems.append(("history-last-not-current", f"{inv}: last entry {got[-1][0]} current status {cur}"))
        for h in hist:
            if str(h.invocation_id) != inv:
                problems.append(("history-foreign-entry", f"{inv}: entry stored for {h.invocation_id}"))
        for a, b in zip(got, got[1:]):
            if (a[0], b[0]) not in L.EDGES:
                problems.append(("history-not-a-path", f"{inv}: {a[0]}->{b[0]} in {[g[0] for g in got]}"))
                break
    return problems
