"""The only place where checks touch pynenc internals that are not public API.

Read-outs (queue order, wait-graph rows) and the documented seeding helper used to
install (status, owner) pairs that no public path reaches.  A missing internal name
raises HarnessError (exit 2), never a violation.
"""

from __future__ import annotations

from datetime import UTC, datetime
from typing import Any

from verif.core import HarnessError


def _need(obj: Any, name: str) -> Any:
    if not hasattr(obj, name):
        raise HarnessError(f"internal name {type(obj).__name__}.{name} no longer exists")
    return getattr(obj, name)


def is_sqlite(component: Any) -> bool:
    return hasattr(component, "sqlite_db_path")


def sql(component: Any, query: str, params: tuple = ()) -> list[tuple]:
    from pynenc.util.sqlite_utils import create_sqlite_connection

    conn = create_sqlite_connection(_need(component, "sqlite_db_path"))
    try:
        cur = conn.execute(query, params)
        rows = cur.fetchall()
        cur.close()
        conn.commit()
        return rows
    finally:
        conn.close()


def inject_status(app: Any, inv_id: str, status: Any, owner: str | None, ts: datetime | None = None) -> None:
    """Install a (status, owner) pair directly in the orchestrator store."""
    from pynenc.invocation.status import InvocationStatusRecord

    orch = app.orchestrator
    ts = ts or datetime.now(UTC)
    if is_sqlite(orch):
        t = _need(orch, "tables").INVOCATIONS
        sql(
            orch,
            f"UPDATE {t} SET status=?, status_runner_id=?, status_timestamp=? WHERE invocation_id=?",
            (status.value, owner, ts.timestamp(), inv_id),
        )
    else:
        recs = _need(orch, "invocation_status_record")
        idx = _need(orch, "status_index")
        prev = recs.get(inv_id)
        if prev is not None:
            idx[prev.status].discard(inv_id)
        idx[status].add(inv_id)
        recs[inv_id] = InvocationStatusRecord(status, owner, ts)


def queue_ids(app: Any) -> list[str]:
    """Queue content in delivery order (read-only peek)."""
    b = app.broker
    if is_sqlite(b):
        t = _need(b, "tables").QUEUE
        return [r[0] for r in sql(b, f"SELECT invocation_id FROM {t} ORDER BY created_at ASC, id ASC")]
    return list(_need(b, "_queue"))


def wait_edges(app: Any) -> set[tuple[str, str]]:
    orch = app.orchestrator
    if is_sqlite(orch):
        t = _need(orch, "tables").BLOCKING_EDGES
        return {(r[0], r[1]) for r in sql(orch, f"SELECT waiter_id, waited_id FROM {t}")}
    bc = orch.blocking_control
    out = set()
    for w, targets in _need(bc, "waiting_for").items():
        for x in targets:
            out.add((w, x))
    return out


def arg_index_rows(app: Any) -> set[tuple[str, str, str]]:
    orch = app.orchestrator
    if is_sqlite(orch):
        t = _need(orch, "tables").INVOCATION_ARGS
        return {(r[0], r[1], r[2]) for r in sql(orch, f"SELECT invocation_id, arg_key, arg_value FROM {t}")}
    out = set()
    for pair, ids in _need(orch, "args_index").items():
        for i in ids:
            out.add((i, pair.key, pair.value))
    return out
