"""Run the real ThreadRunner.run() loop, its task threads and the history writers as detsched
actors in virtual time (used by C09-B, C11, C19)."""

from __future__ import annotations

from typing import Any, Callable

from verif import apps, sched, tasks, vclock, whitebox

MEM_FILES = (
    "pynenc/runner/thread_runner.py",
    "pynenc/runner/base_runner.py",
    "pynenc/invocation/dist_invocation.py",
)

RUNNER_CONF = dict(
    cached_status_time=0.0,
    atomic_service_check_interval_minutes=1e12,  # no core-task cron noise
    runner_loop_sleep_time_sec=0.01,
    invocation_wait_results_sleep_time_sec=0.01,
)


class Env:
    pass


def install_all(kind: str, tick_us: int = 1) -> tuple[vclock.VClock, Any, Any, vclock.DetUUID]:
    clock = vclock.VClock(tick_us=tick_us)
    cinst = vclock.install(clock)
    det = vclock.DetUUID()
    vclock.install_uuid(det, cinst)
    sched.install_clock_sleep(clock)
    inst = sched.install_threading()
    if kind == "sqlite":
        sched.install_sqlite(inst)
    return clock, cinst, inst, det


def progress_fn(app: Any, ids: Callable[[], list[str]]) -> Callable[[], Any]:
    def f() -> Any:
        out = []
        for i in ids():
            try:
                r = app.orchestrator.get_invocation_status_record(i)
                out.append((r.status.name, r.runner_id))
            except KeyError:
                out.append(None)
        try:
            out.append(app.broker.count_invocations())
            out.append(app.orchestrator.count_invocations())
        except Exception:  # noqa: BLE001
            pass
        return tuple(out)

    return f


def run_on_thread_runner(
    kind: str,
    app: Any,
    clock: vclock.VClock,
    policy: sched.Policy,
    stop_when: Callable[[Env], bool],
    slots: int = 1,
    max_steps: int = 400_000,
    stop_at_step: int | None = None,
    watch_ids: Callable[[], list[str]] | None = None,
    extra_trace: tuple[str, ...] = (),
    virtual_deadline_s: float = 600.0,
    stall: tuple[int, int] = (4000, 8),
) -> Env:
    """Start ThreadRunner.run() as the 'loop' actor and a controller actor that requests the stop
    when stop_when(env) holds (polled in virtual time) or at scheduling step stop_at_step."""
    from pynenc.runner.thread_runner import ThreadRunner

    env = Env()
    runner = ThreadRunner(app, runner_context=apps.rctx("RUNNER", "ThreadRunner"))
    env.runner = runner
    env.app = app
    env.stop_requested_at = None
    env.run_returned = False
    env.run_exc = None
    tf = sched.trace_file_set(*MEM_FILES, *extra_trace) if kind == "mem" else sched.trace_file_set(*extra_trace) if extra_trace else set()
    watch = watch_ids or (lambda: [])
    s = sched.Scheduler(policy, clock=clock, trace_files=tf, max_steps=max_steps, quantum_us=1000,
                        progress=progress_fn(app, watch), progress_every=stall[0], stall_rounds=stall[1])
    env.sched = s
    t0 = clock.us

    def loop() -> None:
        try:
            runner.run()
        except BaseException as exc:  # noqa: BLE001
            if isinstance(exc, (sched.SchedAbort, sched.Crash)):
                raise
            env.run_exc = exc
        finally:
            env.run_returned = True

    def controller() -> None:
        while True:
            if stop_at_step is not None and s.step >= stop_at_step:
                break
            if stop_when(env):
                break
            if (clock.us - t0) / 1e6 > virtual_deadline_s:
                env.deadline = True
                break
            s.sleep(0.005 if stop_at_step is not None else 0.03)
        if env.stop_requested_at is None:
            env.stop_requested_at = s.step
            runner.stop_runner_loop()

    env.started_step = None

    def on_step_track(sc: sched.Scheduler, nxt: sched.Actor) -> None:
        if env.started_step is None and runner.running:
            env.started_step = sc.step

    s.on_step = on_step_track
    if stop_at_step is not None:
        # stop injection at an exact scheduling step: checked on every step
        def on_step(sc: sched.Scheduler, nxt: sched.Actor) -> None:
            on_step_track(sc, nxt)
            # only once the loop has started: on_start sets running=True and would silently
            # overwrite an earlier request (signal handlers are installed there as well)
            if env.stop_requested_at is None and sc.step >= stop_at_step and env.started_step is not None:
                env.stop_requested_at = sc.step
                sc.no_yield += 1
                try:
                    runner.stop_runner_loop()
                finally:
                    sc.no_yield -= 1

        s.on_step = on_step
    s.spawn("loop", loop)
    s.spawn("controller", controller)
    s.run()
    env.failure = s.failure
    env.steps = s.step
    return env
