"""Module-level task functions (pynenc re-imports task functions by module + name).

Bodies are tiny interpreters over data so that one function serves every generated
scenario; per-scenario options are applied with app.task(func, **opts) on a fresh app.
A harness-side execution log (process-local) records body entries/exits.
"""

from __future__ import annotations

import threading
from typing import Any

EXEC_LOG: list[tuple[str, str, Any]] = []  # (event, task name, payload)
_LOG_LOCK = threading.Lock()
HOOKS: dict[str, Any] = {}  # name -> callable(event, payload) set by checks


def _log(event: str, name: str, payload: Any) -> None:
    with _LOG_LOCK:
        EXEC_LOG.append((event, name, payload))
    h = HOOKS.get("on_event")
    if h is not None:
        h(event, name, payload)


def reset_log() -> None:
    with _LOG_LOCK:
        EXEC_LOG.clear()
    HOOKS.clear()


def ident(x: Any = None) -> Any:
    _log("enter", "ident", x)
    _log("exit", "ident", x)
    return x


def add(x: int, y: int = 0) -> int:
    _log("enter", "add", (x, y))
    _log("exit", "add", (x, y))
    return x + y


def keyed(k: Any = 0, v: Any = 0, w: Any = 0) -> Any:
    """Three-argument task for concurrency-key scenarios."""
    _log("enter", "keyed", (k, v, w))
    body = HOOKS.get("keyed_body")
    if body is not None:
        body(k, v, w)
    _log("exit", "keyed", (k, v, w))
    return [k, v, w]


def other(k: Any = 0) -> Any:
    _log("enter", "other", k)
    _log("exit", "other", k)
    return k


def sig_pos(a: Any, b: Any = 2, *, c: Any = 3) -> Any:
    return [a, b, c]


def sig_kw(*, a: Any = 1, b: Any = 2) -> Any:
    return [a, b]


def sig_many(a: Any, b: Any, c: Any = "c", d: Any = None) -> Any:
    return [a, b, c, d]


def noargs() -> str:
    return "done"
