"""Module-level task functions (pynenc re-imports task functions by module + name).

Bodies are tiny interpreters over data so that one function serves every generated
scenario; per-scenario options are applied with app.task(func, **opts) on a fresh app.
A harness-side execution log (process-local) records body entries/exits.
"""

from __future__ import annotations

import threading
from typing import Any

EXEC_LOG: list[tuple[str, str, Any]] = []  # (event, task name, payload)
_LOG_LOCK = threading.Lock()
HOOKS: dict[str, Any] = {}  # name -> callable(event, payload) set by checks


def _log(event: str, name: str, payload: Any) -> None:
    with _LOG_LOCK:
        EXEC_LOG.append((event, name, payload))
    h = HOOKS.get("on_event")
    if h is not None:
        h(event, name, payload)


def reset_log() -> None:
    with _LOG_LOCK:
        EXEC_LOG.clear()
    HOOKS.clear()


def ident(x: Any = None) -> Any:
    _log("enter", "ident", x)
    _log("exit", "ident", x)
    return x


def add(x: int, y: int = 0) -> int:
    _log("enter", "add", (x, y))
    _log("exit", "add", (x, y))
    return x + y


def keyed(k: Any = 0, v: Any = 0, w: Any = 0) -> Any:
    """Three-argument task for concurrency-key scenarios."""
    _log("enter", "keyed", (k, v, w))
    body = HOOKS.get("keyed_body")
    if body is not None:
        body(k, v, w)
    _log("exit", "keyed", (k, v, w))
    return [k, v, w]


def other(k: Any = 0) -> Any:
    _log("enter", "other", k)
    _log("exit", "other", k)
    return k


def sig_pos(a: Any, b: Any = 2, *, c: Any = 3) -> Any:
    return [a, b, c]


def sig_kw(*, a: Any = 1, b: Any = 2) -> Any:
    return [a, b]


def sig_many(a: Any, b: Any, c: Any = "c", d: Any = None) -> Any:
    return [a, b, c, d]


def opt3(a: int = 0, b: int = 10, c: int = 100) -> int:
    """Leaf with optional arguments (parallelize with common_args and heterogeneous per-call dicts)."""
    return a + b + c


def creds(token: Any = None, password: Any = None, note: Any = None) -> Any:
    """A task whose argument names look like credentials (views may treat such names specially)."""
    return [token, password, note]


def noargs() -> str:
    return "done"


# ---------------------------------------------------------------------------- program interpreter
# A program is JSON data:  ["ret", v] | ["raise", kind, [attempts]] | ["sum", base, [children]] (child.result one by one)
#                        | ["group", base, [children]] (parallelize + results) | ["seq", [programs]] (run in order, last value)
# Bodies are counted per (path, attempt) in RUNS (harness side, process-local).

RUNS: dict[str, int] = {}


def _this_task(name: str) -> Any:
    from pynenc import context
    from pynenc.identifiers.task_id import TaskId

    app = context.get_current_app()
    if app is None:
        app = HOOKS.get("app")
    return app.get_task(TaskId(__name__, name))


def _raise(kind: str, msg: str) -> None:
    from pynenc.exceptions import RetryError
    from verif.gen import types as T

    if kind == "retry":
        raise RetryError(msg)
    if kind == "retriable":
        raise T.RetriableError(msg, 1)
    if kind == "value":
        raise ValueError(msg, 2)
    raise T.AppError(msg)


def prog(node: Any, path: str = "r") -> Any:
    """Interpreter task."""
    RUNS[path] = RUNS.get(path, 0) + 1
    attempt = RUNS[path]
    h = HOOKS.get("prog_body")
    if h is not None:
        h(path, attempt)
    return _eval(node, path, attempt, "prog")


def progwf(node: Any, path: str = "r") -> Any:
    """The same interpreter, to be registered with force_new_workflow=True (a sub-workflow called from inside a task)."""
    RUNS[path] = RUNS.get(path, 0) + 1
    return _eval(node, path, RUNS[path], "prog")


def dprog(node: Any, path: str = "r") -> Any:
    """Same interpreter registered as a direct task (children are called through the direct wrapper)."""
    RUNS[path] = RUNS.get(path, 0) + 1
    attempt = RUNS[path]
    return _eval(node, path, attempt, "dprog")


def _eval(node: Any, path: str, attempt: int, me: str) -> Any:
    kind = node[0]
    if kind == "ret":
        return node[1]
    if kind == "slow":
        # a body that parks on a (virtual) sleep before returning
        vs = HOOKS.get("vsleep")
        if vs is not None:
            vs(node[2] if len(node) > 2 else 0.05)
        return node[1]
    if kind == "raise":
        if attempt in node[2] or not node[2]:
            _raise(node[1], f"{path}#{attempt}")
        return 100 + attempt  # "succeeded on attempt k"
    if kind == "sum":
        total = node[1]
        for i, ch in enumerate(node[2]):
            if me == "dprog":
                total += HOOKS["dprog_call"](ch, f"{path}.{i}") or 0
            else:
                total += _this_task(me)(ch, f"{path}.{i}").result or 0
        return total
    if kind == "wfsum":
        # children are sub-workflows (force_new_workflow=True) whose results the parent waits for one by one
        total = node[1]
        for i, ch in enumerate(node[2]):
            total += _this_task("progwf")(ch, f"{path}.{i}").result or 0
        return total
    if kind == "group":
        t = _this_task("prog")
        grp = t.parallelize([(ch, f"{path}.{i}") for i, ch in enumerate(node[2])])
        return node[1] + sum((r or 0) for r in grp.results)
    if kind == "none":
        return None
    if kind == "twice":
        # ["twice", base, child]: one child invocation whose result is read twice (a body is executed once per invocation, however often the result is read)
        if me == "dprog":
            r1 = HOOKS["dprog_call"](node[2], f"{path}.0")
            r2 = r1
        else:
            inv = _this_task(me)(node[2], f"{path}.0")
            r1 = inv.result
            r2 = inv.result
        return node[1] + (r1 or 0) + (r2 or 0)
    if kind == "par":
        # ["par", base, common_args, [per-call dicts]]: optional arguments omitted by a call take the function default
        grp = _this_task("opt3").parallelize([dict(d) for d in node[3]], common_args=dict(node[2]))
        return node[1] + sum(grp.results)
    raise ValueError(f"bad node {node!r}")


# ---------------------------------------------------------------------------- trigger argument callbacks (module level: serialised by name)


def args_from_event(ctx: Any) -> dict:
    return {"k": ctx.payload.get("n"), "v": "event"}


def args_from_status(ctx: Any) -> dict:
    return {"k": ctx.arguments.kwargs.get("x"), "v": "status"}


def args_from_result(ctx: Any) -> dict:
    return {"k": ctx.result, "v": "result"}


def args_from_exception(ctx: Any) -> dict:
    return {"k": ctx.arguments.kwargs.get("x"), "v": "exception"}


def target(k: Any = None, v: Any = None, w: Any = 0) -> Any:
    return [k, v, w]


def target2(k: Any = None, v: Any = None, w: Any = 0) -> Any:
    return [k, v, w]


def src1(x: Any = None) -> Any:
    return x


def src2(x: Any = None) -> Any:
    return x


# ---------------------------------------------------------------------------- workflow scripts (C18)

WF_LOG: list[dict] = []
WF_ATTEMPTS: dict[str, int] = {}


def wfchild(x: Any = None) -> Any:
    return x


SUB_SCRIPT = [["uuid"], ["random"], ["task", 0], ["uuid"]]


def _wf_interp(me: str, script: Any, tag: str, fail_until: int) -> Any:
    from pynenc.exceptions import RetryError

    t = _this_task(me)
    child = _this_task("wfchild")
    inv = t.invocation
    iid = str(inv.invocation_id)
    with _LOG_LOCK:
        WF_ATTEMPTS[iid] = WF_ATTEMPTS.get(iid, 0) + 1
        attempt = WF_ATTEMPTS[iid]
    vals: list = []
    pause = HOOKS.get("wf_pause")
    for op in script:
        if op[0] == "random":
            vals.append(("random", t.wf.random()))
        elif op[0] == "time":
            vals.append(("time", t.wf.utc_now().isoformat()))
        elif op[0] == "uuid":
            vals.append(("uuid", t.wf.uuid()))
        elif op[0] == "task":
            ci = t.wf.execute_task(child, op[1])
            vals.append(("task", op[1], str(ci.invocation_id)))
        elif op[0] == "sub":
            # a sub-workflow: a task declared with force_new_workflow=True launched from inside this workflow
            ci = t.wf.execute_task(_this_task("wfsub"), SUB_SCRIPT, f"{tag}.sub")
            vals.append(("sub", str(ci.invocation_id)))
        if pause is not None:
            pause()
    with _LOG_LOCK:
        WF_LOG.append({"wf": str(inv.workflow.workflow_id), "inv": iid, "attempt": attempt, "tag": tag, "values": vals, "task": me})
    if attempt <= fail_until:
        raise RetryError(f"attempt {attempt}")
    return len(vals)


def wfsub(script: Any, tag: str = "") -> Any:
    """The same interpreter, registered with force_new_workflow=True (starts a workflow of its own)."""
    return _wf_interp("wfsub", script, tag, 0)


def wfprog(script: Any, tag: str = "", fail_until: int = 0) -> Any:
    """Interprets a list of deterministic-workflow operations and logs what it observed."""
    return _wf_interp("wfprog", script, tag, fail_until)
