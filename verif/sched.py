"""detsched - a deterministic scheduler that owns the interleaving (DESIGN.md 2.1).

Actors are real threads, but exactly one holds the baton.  Scheduling decisions are taken
by the actor that yields (under the baton), so a decision to continue costs nothing and a
switch costs one semaphore hand-off.  Yield points: every source line of the configured
pynenc files (sys.settrace) and every SQL statement / commit (SQLiteConnection wrappers).
Locks, events, sleeps, thread start/join inside pynenc are cooperative stand-ins.

The replay unit is the *choice list*: the actor index chosen at every scheduling step.
"""

from __future__ import annotations

import importlib
import sqlite3
import sys
import threading as _th
import types
from typing import Any, Callable

from verif.vclock import VClock

_tls = _th.local()


class SchedAbort(BaseException):
    """Raised inside actors to unwind them when a run is abandoned."""


class Crash(BaseException):
    """Hard crash of an actor (kill -9) injected by verif.faults."""


class Deadlock(Exception):
    pass


class Budget(Exception):
    pass


def current_actor() -> "Actor | None":
    return getattr(_tls, "actor", None)


class Actor:
    def __init__(self, sched: "Scheduler", idx: int, name: str, fn: Callable[[], Any]) -> None:
        self.sched = sched
        self.idx = idx
        self.name = name
        self.fn = fn
        self.sem = _th.Semaphore(0)
        self.done = False
        self.started = False
        self.exc: BaseException | None = None
        self.result: Any = None
        self.crashed = False
        self.pred: Callable[[], bool] | None = None  # blocked until pred() is true
        self.wake_us: int | None = None  # sleeping until virtual time >= wake_us
        self.steps = 0
        self.label: Any = None
        self.thread: _th.Thread | None = None
        self.dead = False  # set by fault injection: every later effect raises Crash

    def enabled(self, now_us: int) -> bool:
        if self.done:
            return False
        if self.wake_us is not None:
            if now_us >= self.wake_us:
                return True
            if self.pred is None:
                return False
        if self.pred is not None:
            try:
                return bool(self.pred())
            except Exception:
                return True
        return True

    def __repr__(self) -> str:
        return f"<Actor {self.idx}:{self.name}{' done' if self.done else ''}>"


# ---------------------------------------------------------------------------- policies


class Policy:
    """choose(enabled, current, step) -> Actor.  enabled is sorted by actor index."""

    def choose(self, enabled: list[Actor], current: Actor | None, step: int) -> Actor:
        raise NotImplementedError


class NonPreemptive(Policy):
    """Run the current actor while it is enabled; preempt only at the listed steps.

    preemptions: {step: k} -> at that step switch to the k-th *other* enabled actor.
    """

    def __init__(self, preemptions: dict[int, int] | None = None, newest_first: bool = False) -> None:
        self.preemptions = preemptions or {}
        self.used: list[int] = []
        self.newest_first = newest_first  # free choices (current actor parked / done) go to the newest actor instead of the oldest

    def choose(self, enabled, current, step):
        if step in self.preemptions and len(enabled) > 1:
            self.used.append(step)
            if current is not None and current in enabled:
                others = [a for a in enabled if a is not current]
                return others[self.preemptions[step] % len(others)]
            return enabled[(self.preemptions[step] + 1) % len(enabled)]
        if current is not None and current in enabled:
            return current
        return enabled[-1] if self.newest_first else enabled[0]


class Replay(Policy):
    def __init__(self, choices: list[int]) -> None:
        self.choices = choices
        self.fallback = NonPreemptive()

    def choose(self, enabled, current, step):
        if step < len(self.choices):
            want = self.choices[step]
            for a in enabled:
                if a.idx == want:
                    return a
        return self.fallback.choose(enabled, current, step)


class RandomFair(Policy):
    """Seeded random walk: switch with probability p at every step."""

    def __init__(self, rng: Any, p_switch: float = 0.2) -> None:
        self.rng = rng
        self.p = p_switch

    def choose(self, enabled, current, step):
        if current is not None and current in enabled and len(enabled) > 1 and self.rng.random() >= self.p:
            return current
        return enabled[self.rng.randrange(len(enabled))]


class RoundRobin(Policy):
    """Fair rotation by actor index with a quantum; the rotation position survives actors that
    block or finish (otherwise a spinner with a low index starves the others)."""

    def __init__(self, quantum: int = 1) -> None:
        self.quantum = quantum
        self.left = quantum
        self.last_idx = -1

    def choose(self, enabled, current, step):
        if current is not None and current in enabled and self.left > 0:
            self.left -= 1
            return current
        self.left = self.quantum
        for a in enabled:
            if a.idx > self.last_idx:
                self.last_idx = a.idx
                return a
        self.last_idx = enabled[0].idx
        return enabled[0]


class PCT(Policy):
    """Probabilistic concurrency testing: random priorities + d priority change points."""

    def __init__(self, rng: Any, depth: int, est_steps: int) -> None:
        self.rng = rng
        self.prio: dict[int, float] = {}
        self.change = sorted(rng.randrange(max(1, est_steps)) for _ in range(depth))
        self.low = 0.0

    def choose(self, enabled, current, step):
        for a in enabled:
            if a.idx not in self.prio:
                self.prio[a.idx] = 1.0 + self.rng.random()
        best = max(enabled, key=lambda a: (self.prio[a.idx], -a.idx))
        if self.change and step >= self.change[0]:
            self.change.pop(0)
            self.low -= 1.0
            self.prio[best.idx] = self.low
            best = max(enabled, key=lambda a: (self.prio[a.idx], -a.idx))
        return best


# ---------------------------------------------------------------------------- scheduler


class Scheduler:
    def __init__(
        self,
        policy: Policy,
        clock: VClock | None = None,
        trace_files: set[str] | None = None,
        max_steps: int = 200_000,
        quantum_us: int = 0,
        progress: Callable[[], Any] | None = None,
        progress_every: int = 5_000,
        stall_rounds: int = 6,
        trace_funcs: set[str] | None = None,
    ) -> None:
        self.trace_funcs = trace_funcs  # optional: only these function names of the traced files yield
        self.policy = policy
        self.clock = clock
        self.trace_files = trace_files or set()
        self.max_steps = max_steps
        self.quantum_us = quantum_us
        self.actors: list[Actor] = []
        self.current: Actor | None = None
        self.step = 0
        self.choices: list[int] = []
        self.enabled_counts: list[int] = []
        self.aborting = False
        self.failure: Exception | None = None
        self.finished = _th.Semaphore(0)
        self.running = False
        self.db_epoch = 0
        self.on_step: Callable[["Scheduler", Actor], None] | None = None
        self.progress = progress
        self.progress_every = progress_every
        self.stall_rounds = stall_rounds
        self._last_progress: Any = object()
        self._stalled = 0
        self.no_yield = 0  # >0: yield points are ignored (atomic sections of the harness)

    # ---- construction ----------------------------------------------------
    def spawn(self, name: str, fn: Callable[[], Any]) -> Actor:
        a = Actor(self, len(self.actors), name, fn)
        self.actors.append(a)
        t = _th.Thread(target=self._actor_main, args=(a,), name=f"actor-{a.idx}-{name}", daemon=True)
        a.thread = t
        t.start()
        return a

    def now_us(self) -> int:
        return self.clock.us if self.clock is not None else 0

    # ---- actor side --------------------------------------------------------
    def _actor_main(self, a: Actor) -> None:
        a.sem.acquire()
        _tls.actor = a
        if self.aborting:
            a.done = True
            return
        a.started = True
        try:
            if self.trace_files:
                sys.settrace(self._global_trace)
            a.result = a.fn()
        except SchedAbort:
            pass
        except Crash:
            a.crashed = True
        except BaseException as exc:  # noqa: BLE001 - recorded for the check
            a.exc = exc
        finally:
            sys.settrace(None)
            a.done = True
            _tls.actor = None
            if not self.aborting:
                try:
                    self._switch(a)
                except SchedAbort:
                    pass

    def _global_trace(self, frame: Any, event: str, arg: Any) -> Any:
        if frame.f_code.co_filename in self.trace_files and (self.trace_funcs is None or frame.f_code.co_name in self.trace_funcs):
            return self._local_trace
        return None

    def _local_trace(self, frame: Any, event: str, arg: Any) -> Any:
        if event == "line" and not self.no_yield:
            self.yield_point((frame.f_code.co_name, frame.f_lineno))
        return self._local_trace

    def yield_point(self, label: Any = None) -> None:
        a = current_actor()
        if a is None or a.sched is not self:
            return
        if self.aborting:
            raise SchedAbort()
        if self.no_yield:
            return
        a.label = label
        self._switch(a)

    def block_until(self, pred: Callable[[], bool], label: Any = None, timeout: float | None = None) -> bool:
        """Park the calling actor until pred() holds (or the virtual timeout passes)."""
        a = current_actor()
        if a is None or a.sched is not self:
            return bool(pred())
        if self.aborting:
            raise SchedAbort()
        if pred():
            return True
        a.pred = pred
        a.label = label
        if timeout is not None:
            a.wake_us = self.now_us() + int(timeout * 1_000_000)
        try:
            self._switch(a)
        finally:
            a.pred = None
            a.wake_us = None
        return bool(pred())

    def sleep(self, seconds: float) -> None:
        a = current_actor()
        if a is None or a.sched is not self:
            if self.clock is not None:
                self.clock.advance(max(0.0, seconds))
            return
        if self.aborting:
            raise SchedAbort()
        a.wake_us = self.now_us() + max(1, int(seconds * 1_000_000))
        a.label = ("sleep", seconds)
        try:
            self._switch(a)
        finally:
            a.wake_us = None

    # ---- the scheduling decision (runs under the baton) ---------------------
    def _pick(self) -> Actor | None:
        while True:
            alive = [a for a in self.actors if not a.done]
            if not alive:
                return None
            now = self.now_us()
            enabled = [a for a in alive if a.enabled(now)]
            if enabled:
                break
            wakes = [a.wake_us for a in alive if a.wake_us is not None]
            if wakes and self.clock is not None:
                self.clock.us = max(self.clock.us, min(wakes))
                continue
            self.failure = Deadlock("no enabled actor: " + ", ".join(f"{a.name}@{a.label}" for a in alive))
            return None
        if self.step >= self.max_steps:
            self.failure = Budget(f"step budget {self.max_steps} exhausted")
            return None
        if self.progress is not None and self.step % self.progress_every == 0 and self.step:
            self.no_yield += 1  # the read-out runs pynenc code: it must not reach a yield point
            try:
                p = self.progress()
            finally:
                self.no_yield -= 1
            if p == self._last_progress:
                self._stalled += 1
                if self._stalled >= self.stall_rounds:
                    self.failure = Deadlock(
                        f"no progress: observable state unchanged for {self._stalled * self.progress_every} steps; live actors: "
                        + ", ".join(f"{a.name}@{a.label}" for a in alive)
                    )
                    return None
            else:
                self._stalled = 0
                self._last_progress = p
        nxt = self.policy.choose(enabled, self.current if (self.current in enabled) else None, self.step)
        self.choices.append(nxt.idx)
        self.enabled_counts.append(len(enabled))
        self.step += 1
        nxt.steps += 1
        if self.clock is not None and self.quantum_us:
            self.clock.us += self.quantum_us
        return nxt

    def _switch(self, me: Actor | None) -> None:
        nxt = self._pick()
        if nxt is None:
            # all done, or failure: wake the main thread; abandon everything on failure
            if self.failure is not None:
                self._abort_all(except_for=me)
            self.finished.release()
            if me is not None and not me.done:
                raise SchedAbort()
            return
        self.current = nxt
        if self.on_step is not None:
            self.on_step(self, nxt)
        if nxt is me:
            return
        nxt.sem.release()
        if me is not None and not me.done:
            me.sem.acquire()
            if self.aborting:
                raise SchedAbort()

    def _abort_all(self, except_for: Actor | None = None) -> None:
        self.aborting = True
        for a in self.actors:
            if a is not except_for and not a.done:
                a.sem.release()

    # ---- main thread ---------------------------------------------------------
    def run(self) -> "Scheduler":
        """Run all spawned actors (and the ones they spawn) to completion."""
        prev = _ACTIVE[0]
        _ACTIVE[0] = self
        self.running = True
        try:
            self._switch(None)
            self.finished.acquire()
        finally:
            self.running = False
            _ACTIVE[0] = prev
            if self.failure is not None and not self.aborting:
                self._abort_all()
            for a in self.actors:
                if a.thread is not None:
                    a.thread.join(timeout=2.0)
        return self

    @property
    def leaked(self) -> list[Actor]:
        return [a for a in self.actors if a.thread is not None and a.thread.is_alive()]

    def preemption_points(self) -> list[int]:
        """Steps of this run at which another actor could have been chosen."""
        return [i for i, n in enumerate(self.enabled_counts) if n > 1]


_ACTIVE: list[Scheduler | None] = [None]


def active() -> Scheduler | None:
    return _ACTIVE[0]


# ---------------------------------------------------------------------------- cooperative stand-ins


class CoopLock:
    def __init__(self, reentrant: bool = False) -> None:
        self.owner: Any = None
        self.count = 0
        self.reentrant = reentrant

    def _me(self) -> Any:
        return current_actor() or "MAIN"

    def acquire(self, blocking: bool = True, timeout: float = -1) -> bool:
        me = self._me()
        if self.reentrant and self.owner is me:
            self.count += 1
            return True
        while self.owner is not None:
            s = active()
            if me == "MAIN" or s is None or not s.running:
                break  # stale owner left by an abandoned run; nothing runs concurrently here
            if not blocking:
                return False
            ok = s.block_until(lambda: self.owner is None, ("lock", id(self)), timeout if (timeout is not None and timeout > 0) else None)
            if not ok:
                return False
        self.owner = me
        self.count = 1
        return True

    def release(self) -> None:
        if self.reentrant and self.count > 1:
            self.count -= 1
            return
        self.owner = None
        self.count = 0

    def locked(self) -> bool:
        return self.owner is not None

    def __enter__(self) -> "CoopLock":
        self.acquire()
        return self

    def __exit__(self, *a: Any) -> None:
        self.release()


class CoopEvent:
    def __init__(self) -> None:
        self.flag = False

    def set(self) -> None:
        self.flag = True

    def clear(self) -> None:
        self.flag = False

    def is_set(self) -> bool:
        return self.flag

    def wait(self, timeout: float | None = None) -> bool:
        s = active()
        if self.flag or s is None or current_actor() is None:
            return self.flag
        return s.block_until(lambda: self.flag, ("event", id(self)), timeout)


_thread_counter = [0]


class ManagedThread:
    """threading.Thread stand-in: start() registers a new actor with the active scheduler
    (or runs the target inline when no scheduler is running)."""

    def __init__(self, group: Any = None, target: Any = None, name: str | None = None, args: Any = (), kwargs: Any = None, *, daemon: Any = None) -> None:
        _thread_counter[0] += 1
        self._target = target
        self._args = tuple(args)
        self._kwargs = dict(kwargs or {})
        self.name = name or f"Thread-{_thread_counter[0]}"
        self.daemon = daemon
        self.actor: Actor | None = None
        self._ran_inline = False
        self.ident: int | None = None

    def run(self) -> None:
        if self._target is not None:
            self._target(*self._args, **self._kwargs)

    def start(self) -> None:
        s = active()
        if s is not None and s.running and current_actor() is not None:
            kind = getattr(self._target, "__name__", "thread")
            self.actor = s.spawn(f"{kind}:{self.name}", self.run)
            self.ident = 10_000 + self.actor.idx
        else:
            self._ran_inline = True
            self.ident = 9_999
            self.run()

    def is_alive(self) -> bool:
        if self.actor is not None:
            return not self.actor.done
        return False

    def join(self, timeout: float | None = None) -> None:
        if self.actor is None or self.actor.done:
            return
        s = self.actor.sched
        if current_actor() is None or not s.running:
            return
        s.block_until(lambda: self.actor.done, ("join", self.actor.name), timeout)


def make_threading_shim() -> Any:
    shim = types.SimpleNamespace()
    for name in dir(_th):
        if not name.startswith("__"):
            setattr(shim, name, getattr(_th, name))
    shim.Lock = lambda: CoopLock(False)
    shim.RLock = lambda: CoopLock(True)
    shim.Event = CoopEvent
    shim.Thread = ManagedThread
    shim._verif_shim = True
    return shim


THREADING_MODULES = [
    "pynenc.orchestrator.mem_orchestrator",
    "pynenc.trigger.mem_trigger",
    "pynenc.state_backend.mem_state_backend",
    "pynenc.state_backend.base_state_backend",
    "pynenc.runner.thread_runner",
    "pynenc.runner.base_runner",
]


_ABSENT = object()


class Installed:
    def __init__(self) -> None:
        self.saved: list[tuple[Any, str, Any]] = []

    def set(self, obj: Any, name: str, value: Any) -> None:
        old = obj.__dict__.get(name, _ABSENT) if isinstance(obj, type) else getattr(obj, name, _ABSENT)
        self.saved.append((obj, name, old))
        setattr(obj, name, value)

    def uninstall(self) -> None:
        for obj, name, old in reversed(self.saved):
            if old is _ABSENT:
                try:
                    delattr(obj, name)
                except AttributeError:
                    pass
            else:
                setattr(obj, name, old)
        self.saved.clear()


def install_threading(inst: Installed | None = None) -> Installed:
    inst = inst or Installed()
    shim = make_threading_shim()
    for modname in THREADING_MODULES:
        mod = importlib.import_module(modname)
        if hasattr(mod, "threading"):
            inst.set(mod, "threading", shim)
    from pynenc.state_backend.mem_state_backend import MemStateBackend

    inst.set(MemStateBackend, "_registry_lock", CoopLock(False))
    return inst


def install_sqlite(inst: Installed | None = None) -> Installed:
    """SQL-statement granularity: yield before every statement / commit issued by an actor;
    'database is locked' parks the actor until another actor commits or rolls back."""
    inst = inst or Installed()
    from pynenc.util import sqlite_utils

    cls = sqlite_utils.SQLiteConnection
    orig_execute = cls.execute
    orig_exit = cls.__exit__

    def _prep(self: Any) -> None:
        if not getattr(self, "_verif_nobusy", False):
            self._conn.execute("PRAGMA busy_timeout=0")
            object.__setattr__(self, "_verif_nobusy", True)

    def _locked(e: BaseException) -> bool:
        m = str(e)
        return "locked" in m or "busy" in m

    def execute(self: Any, sql: str, parameters: tuple = (), /) -> Any:
        s = active()
        a = current_actor()
        if s is None or a is None or not s.running:
            return orig_execute(self, sql, parameters)
        s.yield_point(("sql", " ".join(sql.split())[:60]))
        _prep(self)
        while True:
            try:
                return self._conn.execute(sql, parameters)
            except sqlite3.OperationalError as e:
                if not _locked(e):
                    raise
                # injected fault: SQLite's busy time-out expires for this actor at its k-th locked statement, so the
                # "database is locked" error reaches the code under test instead of the actor waiting for the lock
                faults = getattr(s, "busy_faults", None)
                if faults:
                    seen = s.__dict__.setdefault("busy_seen", {})
                    k = seen.get(a.name, 0)
                    seen[a.name] = k + 1
                    if (a.name, k) in faults:
                        s.__dict__.setdefault("busy_fired", []).append((a.name, k, " ".join(sql.split())[:40]))
                        raise
                epoch = s.db_epoch
                s.block_until(lambda: s.db_epoch != epoch, ("db-locked", " ".join(sql.split())[:40]))

    def commit(self: Any) -> None:
        s = active()
        a = current_actor()
        if s is None or a is None or not s.running:
            return self._conn.commit()
        s.yield_point(("commit",))
        _prep(self)
        while True:
            try:
                self._conn.commit()
                s.db_epoch += 1
                return
            except sqlite3.OperationalError as e:
                if not _locked(e):
                    raise
                epoch = s.db_epoch
                s.block_until(lambda: s.db_epoch != epoch, ("db-locked", "commit"))

    def __exit__(self: Any, exc_type: Any, exc_val: Any, exc_tb: Any) -> None:
        s = active()
        try:
            return orig_exit(self, exc_type, exc_val, exc_tb)
        finally:
            if s is not None:
                s.db_epoch += 1

    inst.set(cls, "execute", execute)
    inst.set(cls, "commit", commit)
    inst.set(cls, "__exit__", __exit__)
    # the client data store uses raw sqlite3 connections (`with sqlite3.connect(path) as conn`): same treatment through a
    # module shim, otherwise its 5 s busy wait would burn real time while the lock holder is parked and then raise
    import types

    import pynenc.client_data_store.sqlite_client_data_store as cds_mod

    def _retry(fn: Callable[[], Any], label: Any) -> Any:
        s = active()
        a = current_actor()
        if s is None or a is None or not s.running:
            return fn()
        s.yield_point(label)
        while True:
            try:
                return fn()
            except sqlite3.OperationalError as e:
                if not _locked(e):
                    raise
                epoch = s.db_epoch
                s.block_until(lambda: s.db_epoch != epoch, ("db-locked", str(label)[:40]))

    class CoopRawConn:
        def __init__(self, path: str, *a: Any, **k: Any) -> None:
            s = active()
            if s is not None and current_actor() is not None and s.running:
                k["timeout"] = 0
            self._conn = sqlite3.connect(path, *a, **k)

        def execute(self, sql: str, parameters: Any = ()) -> Any:
            return _retry(lambda: self._conn.execute(sql, parameters), ("sql", " ".join(sql.split())[:60]))

        def commit(self) -> None:
            _retry(self._conn.commit, ("commit",))
            s = active()
            if s is not None:
                s.db_epoch += 1

        def rollback(self) -> None:
            self._conn.rollback()
            s = active()
            if s is not None:
                s.db_epoch += 1

        def close(self) -> None:
            self._conn.close()

        def cursor(self) -> Any:
            return self._conn.cursor()

        def __enter__(self) -> "CoopRawConn":
            return self

        def __exit__(self, exc_type: Any, exc_val: Any, exc_tb: Any) -> None:
            # sqlite3's own context manager: commit on success, roll back on error (the connection stays open)
            if exc_type is None:
                self.commit()
            else:
                self.rollback()

    shim = types.SimpleNamespace(**{n: getattr(sqlite3, n) for n in dir(sqlite3) if not n.startswith("__")})
    shim.connect = CoopRawConn
    inst.set(cds_mod, "sqlite3", shim)
    return inst


def install_clock_sleep(clock: VClock) -> None:
    """Route virtual sleeps through the active scheduler (parks the actor)."""

    def hook(seconds: float) -> None:
        s = active()
        if s is not None and current_actor() is not None and s.running:
            s.sleep(seconds)
        else:
            clock.advance(max(0.0, seconds))

    clock.sleep_hook = hook


def trace_file_set(*relpaths: str) -> set[str]:
    import pynenc
    import os

    root = os.path.dirname(os.path.dirname(pynenc.__file__))
    return {os.path.join(root, p) for p in relpaths}


MEM_TRACE = (
    "pynenc/orchestrator/mem_orchestrator.py",
    "pynenc/broker/mem_broker.py",
    "pynenc/state_backend/mem_state_backend.py",
    "pynenc/trigger/mem_trigger.py",
)
LIFECYCLE_TRACE = (
    "pynenc/orchestrator/base_orchestrator.py",
    "pynenc/invocation/dist_invocation.py",
    "pynenc/trigger/base_trigger.py",
    "pynenc/runner/thread_runner.py",
    "pynenc/runner/base_runner.py",
    "pynenc/core_tasks.py",
)
