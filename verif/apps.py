"""App factory for checks: fresh Mem / SQLite apps, temp DB handling, runner contexts."""

from __future__ import annotations

import atexit
import itertools
import os
import shutil
import tempfile
from typing import Any

from pynenc import Pynenc
from pynenc.runner.runner_context import RunnerContext

_counter = itertools.count(1)
_tmpdirs: list[str] = []

SQLITE_CLS = {
    "orchestrator_cls": "SQLiteOrchestrator",
    "broker_cls": "SQLiteBroker",
    "state_backend_cls": "SQLiteStateBackend",
    "trigger_cls": "SQLiteTrigger",
    "client_data_store_cls": "SQLiteClientDataStore",
}
MEM_CLS = {
    "orchestrator_cls": "MemOrchestrator",
    "broker_cls": "MemBroker",
    "state_backend_cls": "MemStateBackend",
    "trigger_cls": "MemTrigger",
    "client_data_store_cls": "MemClientDataStore",
}


def _cleanup() -> None:
    for d in _tmpdirs:
        shutil.rmtree(d, ignore_errors=True)


atexit.register(_cleanup)


def new_tmpdir() -> str:
    base = os.environ.get("VERIF_TMPBASE") or ("/dev/shm" if os.path.isdir("/dev/shm") and os.access("/dev/shm", os.W_OK) else None)
    d = tempfile.mkdtemp(prefix=f"pynverif{os.getpid()}_", dir=base)
    _tmpdirs.append(d)
    return d


def drop_tmpdir(d: str) -> None:
    shutil.rmtree(d, ignore_errors=True)
    if d in _tmpdirs:
        _tmpdirs.remove(d)


def new_db_path() -> str:
    return os.path.join(new_tmpdir(), "pynenc.db")


def fresh_app_id(prefix: str = "v") -> str:
    return f"{prefix}{os.getpid()}x{next(_counter)}"


def make_app(kind: str, app_id: str | None = None, db: str | None = None, **conf: Any) -> Pynenc:
    """kind in {'mem', 'sqlite'}."""
    cv: dict[str, Any] = {
        "app_id": app_id or fresh_app_id(kind[0]),
        "logging_level": "critical",
        "log_use_colors": False,
    }
    if kind == "sqlite":
        cv.update(SQLITE_CLS)
        cv["sqlite_db_path"] = db or new_db_path()
    elif kind == "mem":
        cv.update(MEM_CLS)
    else:
        raise ValueError(kind)
    cv.update(conf)
    Pynenc._clear_instances()
    app = Pynenc(config_values=cv)
    return app


def rctx(runner_id: str, cls: str = "VerifRunner", parent: RunnerContext | None = None) -> RunnerContext:
    return RunnerContext(runner_cls=cls, runner_id=runner_id, parent_ctx=parent, pid=1, hostname="verif", thread_id=1)


def flush(app: Pynenc) -> None:
    app.state_backend.wait_for_all_async_operations()
