"""Shared run context: evidence accounting, violation / known-finding routing,
replay files, process pools.

Exit codes (see DESIGN.md 1.1): 0 = held on everything explored, 1 = VIOLATION,
2 = harness error / inconclusive.
"""

from __future__ import annotations

import hashlib
import json
import multiprocessing as mp
import os
import sys
import time
import traceback
from collections import Counter
from pathlib import Path
from typing import Any, Callable, Iterable

ROOT = Path(__file__).resolve().parent.parent
# VERIF_OUT redirects evidence/replays (used by ./selftest so that runs against seeded defects
# never overwrite the evidence of the real tree)
_OUT = Path(os.environ["VERIF_OUT"]) if os.environ.get("VERIF_OUT") else ROOT
EVIDENCE_DIR = _OUT / "evidence"
REPLAY_DIR = _OUT / "replays"
KNOWN_FILE = ROOT / "known_findings.json"
EVIDENCE_SCHEMA = Path("/root/.vp/EVIDENCE.schema.json")

MAX_SAMPLES = 6


class HarnessError(Exception):
    """Something in the harness (not in pynenc) is broken -> exit 2."""


class Inconclusive(Exception):
    """A budget was hit before a verdict -> exit 2, never a violation."""


def jsonable(x: Any, depth: int = 0) -> Any:
    """Best-effort conversion of a case description to JSON."""
    if depth > 8:
        return repr(x)
    if x is None or isinstance(x, (bool, int, str)):
        return x
    if isinstance(x, float):
        if x != x or x in (float("inf"), float("-inf")):
            return repr(x)
        return x
    if isinstance(x, bytes):
        return {"__bytes__": x.hex()}
    if isinstance(x, dict):
        return {str(k): jsonable(v, depth + 1) for k, v in x.items()}
    if isinstance(x, (list, tuple)):
        return [jsonable(v, depth + 1) for v in x]
    if isinstance(x, (set, frozenset)):
        return sorted((jsonable(v, depth + 1) for v in x), key=repr)
    return repr(x)


def canon(x: Any) -> str:
    return json.dumps(jsonable(x), sort_keys=True, default=repr)


def load_known() -> dict[str, Any]:
    if not KNOWN_FILE.exists():
        return {"findings": [], "fixed": []}
    return json.loads(KNOWN_FILE.read_text())


class Part:
    """Accounting for one part of a check (mergeable across worker processes)."""

    def __init__(self, name: str, rule: str, exhaustive: bool | None = None) -> None:
        self.name = name
        self.rule = rule
        self.exhaustive = exhaustive
        self.evaluations = 0
        self.nontrivial: set[str] = set()
        self.classes: Counter[str] = Counter()
        self.samples: list[Any] = []
        self.violations: list[dict[str, Any]] = []
        self.known_hits: Counter[str] = Counter()
        self.excluded = 0
        self.notes: list[str] = []

    # -- recording ---------------------------------------------------------
    def case(self, key: Any = None, nontrivial: bool = False, classes: Iterable[str] = (), sample: Any = None) -> None:
        self.evaluations += 1
        if nontrivial:
            k = key if isinstance(key, str) else canon(key)
            if len(k) > 80:
                k = hashlib.sha1(k.encode()).hexdigest()
            self.nontrivial.add(k)
        for c in classes:
            self.classes[c] += 1
        if sample is not None and len(self.samples) < MAX_SAMPLES and (nontrivial or len(self.samples) < 2):
            self.samples.append(jsonable(sample))

    def event(self, c: str, n: int = 1) -> None:
        self.classes[c] += n

    def violation(self, key: str, what: str, replay: Any) -> None:
        self.violations.append({"key": key, "what": what, "replay": jsonable(replay)})

    def known(self, key: str) -> None:
        self.known_hits[key] += 1
        self.excluded += 1

    # -- transport ---------------------------------------------------------
    def dump(self) -> dict[str, Any]:
        return {
            "name": self.name,
            "rule": self.rule,
            "exhaustive": self.exhaustive,
            "evaluations": self.evaluations,
            "nontrivial": sorted(self.nontrivial),
            "classes": dict(self.classes),
            "samples": self.samples,
            "violations": self.violations,
            "known_hits": dict(self.known_hits),
            "excluded": self.excluded,
            "notes": self.notes,
        }

    def merge(self, d: dict[str, Any]) -> None:
        self.evaluations += d["evaluations"]
        self.nontrivial.update(d["nontrivial"])
        self.classes.update(d["classes"])
        for s in d["samples"]:
            if len(self.samples) < MAX_SAMPLES:
                self.samples.append(s)
        self.violations.extend(d["violations"])
        self.known_hits.update(d["known_hits"])
        self.excluded += d["excluded"]
        self.notes.extend(d.get("notes", []))
        if d.get("exhaustive") is False:
            self.exhaustive = False


class Ctx:
    def __init__(self, prop: str, tier: str, seed: int, level: str) -> None:
        self.prop = prop
        self.tier = tier
        self.seed = seed
        self.level = level
        self.parts: dict[str, Part] = {}
        self.assumptions: list[str] = []
        self.t0 = time.time()
        known = load_known()
        self.known = {f["key"]: f for f in known.get("findings", []) if f.get("property") == prop}
        self.extra: dict[str, Any] = {}

    @property
    def quick(self) -> bool:
        return self.tier == "quick"

    def part(self, name: str, rule: str, exhaustive: bool | None = None) -> Part:
        if name not in self.parts:
            self.parts[name] = Part(name, rule, exhaustive)
        return self.parts[name]

    def is_known(self, key: str) -> bool:
        return key in self.known

    def known_keys(self) -> set[str]:
        return set(self.known)

    # ------------------------------------------------------------------
    def finish(self) -> int:
        wall = time.time() - self.t0
        evaluations = sum(p.evaluations for p in self.parts.values())
        nontrivial = sum(len(p.nontrivial) for p in self.parts.values())
        samples: list[Any] = []
        for p in self.parts.values():
            for s in p.samples[:3]:
                samples.append({"part": p.name, "case": s})
        rule = " || ".join(f"[{p.name}] {p.rule}" for p in self.parts.values())
        all_viol: list[dict[str, Any]] = []
        known_hits: Counter[str] = Counter()
        for p in self.parts.values():
            known_hits.update(p.known_hits)
            for v in p.violations:
                if v["key"] in self.known:
                    known_hits[v["key"]] += 1
                else:
                    all_viol.append({**v, "part": p.name})
        # de-duplicate violations per bucket key
        by_key: dict[str, dict[str, Any]] = {}
        for v in all_viol:
            by_key.setdefault(v["key"], v)
        exit_code = 0
        lines: list[str] = []
        for key, f in sorted(self.known.items()):
            n = known_hits.get(key, 0)
            if n:
                lines.append(f"KNOWN-FINDING: property={self.prop} {key} :: {f.get('what', '')} (reproduced {n}x this run)")
            else:
                lines.append(f"NOTE known finding not reproduced this run: property={self.prop} {key}")
        replay_paths = []
        for key, v in sorted(by_key.items()):
            d = REPLAY_DIR / self.prop
            d.mkdir(parents=True, exist_ok=True)
            sha = hashlib.sha1(canon([key, v["replay"]]).encode()).hexdigest()[:12]
            path = d / f"{sha}.json"
            path.write_text(json.dumps({"property": self.prop, "part": v["part"], "key": key, "what": v["what"], "case": v["replay"]}, indent=1, sort_keys=True))
            rel = os.path.relpath(path, ROOT) if _OUT == ROOT else str(path)
            replay_paths.append(rel)
            lines.append(f"VIOLATION property={self.prop} replay={rel}")
            lines.append(f"  bucket={key} :: {v['what']}")
            exit_code = 1
        coverage: dict[str, Any] = {
            "evaluations": evaluations,
            "distinct_nontrivial": nontrivial,
            "rule": rule,
            "samples": samples,
            "parts": {
                p.name: {
                    "evaluations": p.evaluations,
                    "distinct_nontrivial": len(p.nontrivial),
                    "classes": dict(sorted(p.classes.items())),
                    "exhaustive": bool(p.exhaustive),
                    "excluded_known_finding_cases": p.excluded,
                    "notes": p.notes[:10],
                }
                for p in self.parts.values()
            },
            "known_findings_reproduced": dict(known_hits),
            "violation_buckets": sorted(by_key),
            "replays": replay_paths,
        }
        if self.parts and all(p.exhaustive for p in self.parts.values()):
            coverage["exhaustive"] = True
        elif any(p.exhaustive for p in self.parts.values()):
            coverage["exhaustive_parts"] = [p.name for p in self.parts.values() if p.exhaustive]
        coverage.update(self.extra)
        ev = {
            "property_id": self.prop,
            "tier": self.tier,
            "seed": self.seed,
            "level": self.level,
            "coverage": coverage,
            "assumptions": self.assumptions,
            "wall_s": round(wall, 3),
            "violations": len(by_key),
        }
        EVIDENCE_DIR.mkdir(parents=True, exist_ok=True)
        out = EVIDENCE_DIR / f"{self.prop}.json"
        out.write_text(json.dumps(ev, indent=1, sort_keys=True))
        problems = validate_evidence(ev)
        for line in lines:
            print(line)
        print(
            f"[{self.prop}] tier={self.tier} seed={self.seed} evaluations={evaluations} "
            f"distinct_nontrivial={nontrivial} violations={len(by_key)} known={sum(known_hits.values())} wall={wall:.1f}s"
        )
        for p in self.parts.values():
            top = ", ".join(f"{k}={v}" for k, v in sorted(p.classes.items())[:14])
            print(f"   part {p.name}: n={p.evaluations} nontrivial={len(p.nontrivial)} {top}")
        if problems:
            print("HARNESS: evidence does not validate: " + "; ".join(problems), file=sys.stderr)
            return 2 if exit_code == 0 else exit_code
        if exit_code == 0 and (evaluations < 1 or nontrivial < 2):
            print("HARNESS: check explored too little to count", file=sys.stderr)
            return 2
        return exit_code


def validate_evidence(ev: dict[str, Any]) -> list[str]:
    try:
        import jsonschema  # type: ignore
    except Exception:  # pragma: no cover - fallback when setup_cmd was not run
        req = ["property_id", "tier", "seed", "level", "coverage", "wall_s"]
        return [f"missing {k}" for k in req if k not in ev]
    if not EVIDENCE_SCHEMA.exists():
        return []
    schema = json.loads(EVIDENCE_SCHEMA.read_text())
    v = jsonschema.Draft202012Validator(schema)
    return [e.message[:200] for e in v.iter_errors(ev)]


# ----------------------------------------------------------------------------
# process pool helpers


def ncpu() -> int:
    try:
        return max(1, min(16, len(os.sched_getaffinity(0))))
    except Exception:
        return 4


def _shard_entry(args: tuple[Callable[..., Any], tuple[Any, ...]]) -> Any:
    fn, a = args
    try:
        return ("ok", fn(*a))
    except BaseException:  # noqa: BLE001 - transported to the parent
        return ("err", traceback.format_exc())


def pmap(fn: Callable[..., Any], arglist: list[tuple[Any, ...]], procs: int | None = None, maxtasks: int | None = None) -> list[Any]:
    """Run fn(*args) for every args tuple in a fork pool; results in order.

    A worker exception is a harness error (exit 2): property violations must be
    *returned* by fn inside a Part dump, never raised.
    """
    procs = procs or ncpu()
    if procs <= 1 or len(arglist) <= 1 or os.environ.get("VERIF_NOPOOL"):
        out = [_shard_entry((fn, a)) for a in arglist]
    else:
        ctx = mp.get_context("fork")
        with ctx.Pool(min(procs, len(arglist)), maxtasksperchild=maxtasks) as pool:
            out = pool.map(_shard_entry, [(fn, a) for a in arglist], chunksize=1)
    res = []
    for tag, val in out:
        if tag == "err":
            raise HarnessError("worker failed:\n" + val)
        res.append(val)
    return res


def merge_parts(ctx: Ctx, dumps: Iterable[dict[str, Any] | list[dict[str, Any]]]) -> None:
    for d in dumps:
        items = d if isinstance(d, list) else [d]
        for item in items:
            ctx.part(item["name"], item["rule"], item.get("exhaustive")).merge(item)
