"""Schedule exploration strategies on top of verif.sched (all yield finished Schedulers)."""

from __future__ import annotations

import random
from typing import Any, Callable, Iterator

from verif import sched


def dfs_preemptions(run_with: Callable[[sched.Policy], sched.Scheduler], p_max: int, limit: int | None = None, part: tuple[int, int] | None = None, newest_first: bool = False) -> Iterator[tuple[dict[int, int], sched.Scheduler]]:
    """Exhaustive over all schedules with <= p_max forced switches (CHESS-style).

    run_with(policy) builds a fresh scenario, runs it under the policy and returns the scheduler.
    part=(i, n): only the sub-tree whose first forced switch is at a step = i (mod n) (the search split over processes).
    """
    n = 0
    base = run_with(sched.NonPreemptive({}, newest_first))
    yield {}, base
    n += 1
    frontier: list[tuple[dict[int, int], sched.Scheduler]] = [({}, base)]
    for _ in range(p_max):
        new: list[tuple[dict[int, int], sched.Scheduler]] = []
        for pre, sc in frontier:
            last = max(pre) if pre else -1
            counts = list(sc.enabled_counts)
            for step, cnt in enumerate(counts):
                if step <= last or cnt < 2:
                    continue
                if part is not None and not pre and step % part[1] != part[0]:
                    continue
                for k in range(cnt - 1):
                    pre2 = {**pre, step: k}
                    sc2 = run_with(sched.NonPreemptive(dict(pre2), newest_first))
                    yield pre2, sc2
                    n += 1
                    new.append((pre2, sc2))
                    if limit is not None and n >= limit:
                        return
        frontier = new


def pct_runs(run_with: Callable[[sched.Policy], sched.Scheduler], seed: int, runs: int, depth: int, est_steps: int) -> Iterator[tuple[Any, sched.Scheduler]]:
    for i in range(runs):
        rng = random.Random(seed * 1_000_003 + i)
        yield ("pct", seed, i), run_with(sched.PCT(rng, depth, est_steps))


def random_runs(run_with: Callable[[sched.Policy], sched.Scheduler], seed: int, runs: int, p_switch: float = 0.25) -> Iterator[tuple[Any, sched.Scheduler]]:
    for i in range(runs):
        rng = random.Random(seed * 1_000_003 + i)
        yield ("rand", seed, i), run_with(sched.RandomFair(rng, p_switch))


def shrink_choices(choices: list[int], still_fails: Callable[[list[int]], bool], budget: int = 60) -> list[int]:
    """Delta-debug a failing choice list towards the non-preemptive default (shorter prefix)."""
    best = list(choices)
    # try truncating (the Replay policy falls back to non-preemptive after the prefix)
    lo, hi = 0, len(best)
    tries = 0
    while lo < hi and tries < budget:
        mid = (lo + hi) // 2
        tries += 1
        if still_fails(best[:mid]):
            hi = mid
        else:
            lo = mid + 1
    return best[:hi]
