#!/venv/bin/python
"""Regenerates MANIFEST.json from the table below (keeps it schema-valid)."""
import json, sys
from pathlib import Path

ROOT = Path(__file__).resolve().parent
props = [json.loads(l) for l in (ROOT / "properties.jsonl").read_text().splitlines() if l.strip()]

# id -> (category, technique, text, note, design_ref)
CHECKS = {
    "C01": (
        "exploration",
        "exhaustive table enumeration + exhaustive short sequences + Hypothesis stateful machine vs reference lifecycle model, Mem/SQLite differential",
        "The complete single-step table (15 x 3) x (14 x 3) is enumerated on both backends and compared with an independent model of the documented graph (outcome class, resulting record, unchanged record/counts/history on rejection); all request sequences up to length 3 (thorough 4) over 8 statuses x 2 runners and seeded 60-step machines on 3 invocations extend it to histories. Exhaustive for the table and the bounded sequences, sampled beyond.",
        "Trusted: the reference model in verif/models/lifecycle.py (27 edges cross-checked with the documented SVG at start-up); unreachable (status, owner) pairs are installed white-box; requester 'none' uses the base-class _atomic_status_transition contract.",
        "DESIGN.md 3 C01, A.1",
    ),
    "C08": (
        "exploration",
        "Hypothesis stateful machine vs deque model on both brokers + deterministic-scheduler interleavings (bounded-preemption DFS for 2 actors, PCT for 3) at SQL-statement / source-line granularity",
        "Sequential histories of route / batch route / retrieve / count / purge (up to 200 steps) are compared step by step with a deque model on MemBroker and SQLiteBroker; concurrent retrievers and routers run as actors of a schedule-owning scheduler: every schedule with <= 1 forced switch (thorough <= 2) for two actors, PCT for three, judged by multiset conservation, per-retriever order and no spurious empty result.",
        "Trusted: deque model; scheduler yields only at SQL statements/commits (SQLite) and at source lines of mem_broker.py (Mem); SQLite 'database is locked' is modelled as parking the actor until the next commit/rollback.",
        "DESIGN.md 3 C08, 2.1, A.6",
    ),
    "C12": (
        "exploration",
        "exhaustive grid + boundary enumeration of can_run_atomic_service against an exact rational model, Hypothesis float search, integration slice on both orchestrators under a virtual clock",
        "For every configuration of a finite family (N 1..8/16 x 6 cycle lengths x 6 margins x 3 epoch offsets) all runners are asked at the same instant on a dense grid and at every window boundary +-{0, 1 ulp, 1 us}: at most one authorised, model agreement away from boundaries, non-empty windows, margin gaps empty; Hypothesis explores float configurations beyond the family; should_run_atomic_service is exercised on Mem and SQLite with a controlled clock and silent runners.",
        "Trusted: rational window model derived from the statement (cycle and margin taken as the float products minutes*60); 1 us tolerance band at boundaries and at margin ~ slot (either regime accepted there).",
        "DESIGN.md 3 C12, A.8",
    ),
    "C02": (
        "exploration",
        "schedule search with a deterministic scheduler (bounded-preemption DFS for 2 actors and for the 3-party critical-section scenario, PCT + seeded random for 3-4) over 14 claim/run/release scenarios; history invariant from a monitor replayed through the lifecycle model",
        "Pollers (get_invocations_to_run + run) and releasing actors (retry, pending-recovery task, kill-and-reroute) run as actors of a scheduler that owns the interleaving at source-line (Mem) / SQL-statement (SQLite) granularity; every explored execution's log of accepted transitions must be a run of the reference lifecycle model (no claim without release, no move of an owned invocation by a non-owner), every yielded id must match a claim, task bodies must not overlap without kill/recovery. Scenarios include a stale request of the old owner overlapping a complete release + re-claim (status back to the same value under another owner) and an owner releasing while two pollers hold a copy of the id (complete for <= 2 forced switches at the critical-section functions).",
        "Trusted: scheduler stand-ins for threading/sqlite busy-wait/clock (DESIGN 2.1); exhaustive only for 2 actors with <= 1 (thorough 2) forced switches up to the stated run limit; preemption inside a line/statement not modelled.",
        "DESIGN.md 3 C02, 2.1, A.2",
    ),
    "C10": (
        "exploration",
        "schedule search (same engine/scenarios as C02) with history writers as free actors + Hypothesis request sequences; oracle = harness-side log of successful transitions",
        "After every explored execution (claims, retries, reroutes, kills, recoveries; single and batch registration) the stored history, ordered by change time, must equal the monitor's log: same statuses in order, the runner that made each change, first REGISTERED, last = current status, a path of the documented graph, nothing stored under a foreign id.",
        "Trusted: monitor wrappers on the app instance; ticking virtual clock (unique change times).",
        "DESIGN.md 3 C10",
    ),
    "C06": (
        "exploration",
        "Hypothesis-generated cases (task options x submissions x submission path x runners x schedule seed), one deterministic-scheduler execution each; oracle = replay of a monitor log with harness-computed concurrency keys; plus a complete <= 2-forced-switch search over the Mem status-index / lookup functions on small same-key workloads and a directed housekeeping (auto-purge) family",
        "Each generated case runs runner actors (polls) and worker actors (invocation.run with multi-step bodies and first-attempt retries) under a seeded random / PCT / non-preemptive schedule on Mem (line level) and SQLite (statement level). The monitor's log of accepted transitions, concurrency checks, queue pops and poll failures is replayed: never two RUNNING per key, no failing poll, every block decision has a same-key PENDING/RUNNING holder, blocked invocations end CONCURRENCY_CONTROLLED_FINAL or re-queued per option, nothing available is left un-queued at quiescence.",
        "Trusted: key computation in the harness; scheduler stand-ins; change visibility bracketed by [record time, return time] so stale-read classifications never rest on a tie. The listed known findings are excluded by construction and re-confirmed by directed probes.",
        "DESIGN.md 3 C06, A.5",
    ),
    "C03": (
        "fault_enumeration",
        "complete fault enumeration: a hard crash before and after every backend effect of 15 actor-role operations (real code paths, incl. the PersistentProcessRunner and MultiThreadRunner worker entry points and the ProcessRunner loop iteration run in-process) on Mem and SQLite, each followed by the real recovery tasks and a drain by a surviving runner; invariant oracle over the resulting history",
        "For every role (client single/batch routing, plain / blocking-priority / concurrency-deferred claim, worker success / failure / retry / not-authorised reroute, kill-and-reroute, pending and running recovery tasks, PPR and MTR worker loops, ProcessRunner loop iteration) the effects of the operation are counted in a fault-free run and a crash is injected before and after each one (complete for these scenarios; thorough adds larger batch / claim / recovery sizes); after both recovery limits pass, a survivor runs recover_pending/recover_running and drains; every accepted invocation must be final with its body completed at least once, and its state at the crash instant is classified (queued+available / owned / neither). The windows in which the unchanged code strands an invocation are listed as known findings by role and crash-instant state; anything else is a violation.",
        "Trusted: effect boundaries = the wrapped backend methods (queue push/pop, status write, registration, result/exception write, argument index, retry counter, wait graph, invocation upsert); a crash is a BaseException at such a boundary plus refusal of all later effects of the dead actor (SQLite transactions roll back); survivors run sequentially; worker entry points run in-process with inline task threads.",
        "DESIGN.md 3 C03, 2.2",
    ),
    "C04": (
        "exploration",
        "Hypothesis stateful machine (Mem + SQLite in lock-step, stepped virtual clock on an exact 1/64 s grid) vs a reference model of the recovery scans; lost races injected at a chosen point of the real core-task bodies",
        "Histories of submits, claims, starts, finishes, own and parent-reported heartbeats and boundary-centred clock advances; both recovery scans are compared with the model (exactly the stuck ids: >= limit for PENDING, no heartbeat within the timeout for RUNNING owners), the real recover_pending/recover_running bodies must leave every stuck id REROUTED and queued exactly once more, every other id untouched, nothing in a *_RECOVERY status - also when the owner of a scanned id progresses between scan and transition.",
        "Trusted: model of A.4; virtual clock substituted for module-level time/datetime names; queue membership read white-box (read-only).",
        "DESIGN.md 3 C04, A.4",
    ),
    "C07": (
        "exploration",
        "Hypothesis stateful machine per registration configuration, Mem + SQLite in lock-step with a key -> REGISTERED-invocation model",
        "Sequences of submissions (argument values with repeats, positional/keyword/defaults-omitted spellings) interleaved with transitions that move invocations out of REGISTERED and with auto-purge of finished ones, for DISABLED/TASK/ARGUMENTS/KEYS x key subsets x raise option (incl. key_arguments declared under TASK/ARGUMENTS): a duplicate returns the existing invocation and creates nothing (invocation and queue counts), otherwise exactly one new invocation; at most one REGISTERED per key after every step; KEYS+raise rejects differing non-key arguments without changing anything.",
        "Trusted: registration keys computed by the harness; raise option generated only with KEYS mode.",
        "DESIGN.md 3 C07, A.5",
    ),
    "C15": (
        "exploration",
        "Hypothesis over recursively generated values per serializer domain: round-trip oracles (serializer, client data store, full storage trip), metamorphic call-identity relations across spellings/submission paths, injectivity of the args id over adversarial string dicts",
        "Serializer and store round-trips for Json/JsonPickle/Pickle x Mem/SQLite x thresholds 16/64/1024 with sizes at threshold -1/0/+1, disable flags and a 2-entry LRU; content addressing (equal content -> equal reference; a reference keeps resolving to the content it was created from after caller mutation, eviction, reader mutation, fresh reader); the worker-side LazyCall arguments and the client-side result equal the originals; all spellings and submission paths of a call share one call_id and call_id equality coincides with equality of the serialized arguments; compute_args_id is injective on generated dict pairs.",
        "Trusted: structural NaN-/type-aware equality; reserved-prefix strings and non-string keys (except pickle) are outside the generated domain; another process image = cleared process-local cache.",
        "DESIGN.md 3 C15, A.11",
    ),
    "C05": (
        "exploration",
        "Hypothesis over generated results/exceptions x serializer x backend x threshold (round-trip through set_invocation_result/exception and a fresh client-side invocation) + bounded-preemption schedule search of a polling reader against a finishing worker",
        "Every generated outcome is written through the orchestrator and read back by a fresh client object: SUCCESS gives an equal value, FAILED raises the same exception type and args, every non-final status refuses; a reader actor polling status/get_final_result is interleaved with the worker at line/statement granularity (all schedules with <= 1, thorough 2, forced switches): a final status is never observed without its result/exception, a value never while non-final.",
        "Trusted: structural equality; client = fresh invocation object with cleared process-local cache; scheduler stand-ins.",
        "DESIGN.md 3 C05",
    ),
    "C09": (
        "exploration",
        "Hypothesis stateful machine of the wait graph on both backends vs a reference definition + generated call trees executed by the real ThreadRunner loop under a deterministic scheduler in virtual time",
        "Wait declarations, status changes (finals release waiters) and get_blocking_invocations(n) for n in {0,1,2,3,100} are compared with the definition (reported iff waited-on, runnable, not itself waiting; duplicate-free, size min(n, |set|)) on Mem and SQLite in lock-step; generated trees (depth <= 3, fan-out <= 3, .result chains and parallelize groups) run on ThreadRunner.run() with 1-2 slots, every thread an actor: the root must reach SUCCESS with the denoted value, a scheduler-level proof of no progress is a violation, a budget hit is inconclusive.",
        "Trusted: wait-graph definition A.7; declarations only on non-final targets; bounded liveness (stall = observable state unchanged over 32k fair scheduling steps).",
        "DESIGN.md 3 C09, A.7",
    ),
    "C11": (
        "fault_enumeration",
        "fault enumeration of the stop instant: the stop request injected at scheduling step k of a deterministic-scheduler run of the real ThreadRunner loop (virtual time), k enumerated over the run; oracle over the monitor log and the final store",
        "For six workloads (independent, slow bodies, retries, parents waiting on children singly/grouped, mixed) x slots x Mem/SQLite the un-stopped reference run gives T steps; the stop is injected at every k (thorough) or at an even stride plus the neighbourhood of every status change (quick). run() must return, and every invocation the runner ever claimed must be final or available, un-owned and queued; nothing PENDING/RUNNING/KILLED under the stopped runner.",
        "Trusted: scheduler stand-ins; stop = stop_runner_loop() at step k once the loop has started; bounded liveness. One listed known finding (join on a thread waiting for a sub-task) is excluded by construction and counted.",
        "DESIGN.md 3 C11",
    ),
    "C13": (
        "exploration",
        "Hypothesis histories vs a pending-occurrence model on both trigger stores, brute-force cron evaluator with an own field matcher, bounded-preemption schedule search of concurrent trigger-loop iterations",
        "Ten trigger configurations (single/OR/AND over event, status, result, exception conditions; static and per-context argument providers; shared conditions) x generated histories with several occurrences pending at once: launches and their arguments per loop iteration must equal the model's (exactly once per occurrence for OR/single, once per complete set for AND, nothing left pending); generated cron expressions x window/min-interval/strict settings x poll sequences (incl. window-edge +-1us and bursts) against an independent evaluator; two concurrent loop iterations (+ reporter) on Mem and SQLite under all schedules with <= 1 (2) forced switches: one launch per occurrence.",
        "Trusted: occurrence model A.9; cron family restricted to minute/hour fields; scheduler stand-ins.",
        "DESIGN.md 3 C13, A.9",
    ),
    "C17": (
        "exploration",
        "Hypothesis over adversarial application-id pairs/triples: metamorphic isolation oracle (snapshot of app B unchanged by any operation on app A) on a shared SQLite file and in one process, plus the real purge selection on scratch databases",
        "Ids are generated as punctuation/case variants, strings equal to or extending another id's computed storage prefix (with component suffixes and LIKE-wildcard shapes), SQL metacharacters, unicode, whitespace, leading digits, long ids. Table names must be identifiers, distinct case-insensitively, and no component purge of A may select a table of B (real delete_tables_with_prefix on a scratch DB); 2-3 apps sharing one file run interleaved operations incl. every component purge: every other app's snapshot (public read-out + exact table dump) must stay identical.",
        "Trusted: snapshot read-out (public APIs + dump of exactly the tables named by the component's Tables object).",
        "DESIGN.md 3 C17, A.14",
    ),
    "C19": (
        "exploration",
        "metamorphic/differential execution of Hypothesis-generated task programs in three modes (sync, Mem + ThreadRunner, SQLite + ThreadRunner under a deterministic scheduler) plus a reference interpreter of the retry rules; PCT schedule search over small retry programs",
        "Each generated program (returns, scripted retriable / non-retriable raises on chosen attempts, nested .result calls, parallelize groups, parallelize with common_args and heterogeneous per-call dicts; plain and direct_task flavours; max_retries 0..3; retry_for subsets) is run inline in dev sync mode and distributed on both stacks with the real runner loop in virtual time: outcomes (value or exception type+args) and per-node body-execution counts must be equal across modes and equal to the denotation (always-retriable: max_retries+1 executions then failure; success on attempt k: k executions; non-retriable: 1). A second part runs six retry programs under PCT schedules (two priority change points) on both stacks and compares the per-node execution counts with the denotation, which is what exposes attempts started from a stale retry count.",
        "Trusted: interpreter tasks and reference retry interpreter; programs with a raise below a group are compared by outcome class only (completion-order dependent); bounded liveness for the distributed runs.",
        "DESIGN.md 3 C19, A.13",
    ),
    "C20": (
        "exploration",
        "Hypothesis-generated system states x every GET route of the assembled FastAPI app (enumerated from its route table) with generated path/query parameters, served in-process; invariant oracle: full snapshot before == after",
        "States are built by generated operation histories on both stacks (queues longer than the page limit, externalised list results, retries, waits, runners silent for hours under a virtual clock, optionally a queued id whose stored record was deleted). For each state every GET route is requested with existing / missing / malformed ids and limits -1..10^6; after every request, whatever the status code, the snapshot (queue ids in order, records, results, histories, wait graph, runner records, workflow runs, trigger state, table digests) must be identical.",
        "Trusted: snapshot read-out; fastapi.testclient in-process; /switch-app/{id} skipped (monitor-local selection).",
        "DESIGN.md 3 C20, A.14",
    ),
    "C18": (
        "exploration",
        "Hypothesis histories of workflow scripts and re-execution plans (same-process retries, recovery re-runs, fresh process images, sequential and scheduler-driven concurrent interleavings of several workflows of one task) + a real sub-process slice; replay oracle",
        "Each generated history runs 1-3 workflows of the same interpreter task (scripts of random / utc_now / uuid / execute_task operations) through the real DistributedInvocation.run path under a plan of retries, died-and-recovered executions, fresh Pynenc/Task objects on the same SQLite file and executions of the sub-tasks in between, sequentially or as concurrent scheduler actors: the n-th value of every attempt equals the first attempt's, an identical sub-task call returns the same invocation and exists once, workflows share neither children nor uuids. A real second process with another PYTHONHASHSEED replays with and without the recorded values.",
        "Trusted: harness-side log of the values each body execution observed; body execution = PENDING + fresh invocation object + run(); with a collapsing (registration-concurrency) sub-task cross-workflow sharing is by design and not checked.",
        "DESIGN.md 3 C18, A.12",
    ),
    "C14": (
        "exploration",
        "Hypothesis stateful machine driving the real start / loop-iteration / child-heartbeat code of the three process-based runners with controllable stand-ins for the OS process objects; capacity oracle",
        "For MultiThreadRunner (enforce-max on/off), PersistentProcessRunner and ProcessRunner with pools of 1-4 workers: sequences of loop iterations, deaths of any subset of workers with exit codes 0/1/-9/-15 (including all at once), enqueued work and re-queued held invocations. Two iterations after any deaths no dead worker may be tracked and the number of live tracked workers must equal the documented capacity; register_runner_heartbeats must never be called with a dead worker.",
        "Trusted: stand-ins for multiprocessing.Process/Manager/cpu_count and os.kill in the runner modules (worker bodies never run); capacity rules of DESIGN A.10.",
        "DESIGN.md 3 C14, A.10",
    ),
    "C16": (
        "exploration",
        "differential Hypothesis stateful machine: one Mem app and one SQLite app driven in lock-step under a virtual clock over the public operation alphabet of all five component families; small reference models (lifecycle, queue) on top",
        "Up to 60 operations per history over <= 8 invocations, 3 tasks, 3 argument values and 3 runners: registration (single / batch), status requests, queries by task / arguments / status / call, pagination, counts, filter-by-status, retries, heartbeats and active runners, clock advances, recovery scans, auto-purge, wait graph, queue, results / exceptions / history / workflow data / workflow runs / time-range scans / runner contexts, trigger conditions / valid conditions / run claims with expiry / cron bookkeeping, client data, component purges. Return values (sets where order is unspecified), error families and later observations must be equal on both backends and agree with the lifecycle and queue models.",
        "Trusted: canonicalisation (ids -> indices, sorted where order is unspecified, pagination modulo equal timestamps); status requests only on registered ids; a state-backend purge restarts the universe (orchestrator and broker purged with it).",
        "DESIGN.md 3 C16",
    ),
}

NOT_YET = "check not built yet in this session (work in progress, see DESIGN.md section 3)"

manifest = {
    "version": 1,
    "setup_cmd": "/venv/bin/pip install --no-index --find-links /opt/veriftools/wheels --target /verif/.deps --upgrade hypothesis jsonschema >/dev/null 2>&1 || true; /venv/bin/python -c 'import sys; sys.path.insert(0, \"/verif/.deps\"); import hypothesis, pynenc; print(\"setup ok\", hypothesis.__version__)'",
    "hooks": {
        "guard": "PYNENC_VERIF",
        "enable": "no source hooks: checks substitute module attributes of the live pynenc modules from the harness (clock, threads, locks, sqlite, uuid); ./check exports PYNENC_VERIF=1 for uniformity",
        "baseline_off_cmd": "cd /repo && /venv/bin/python -m pytest -ra -q -p no:cacheprovider --timeout=900 --continue-on-collection-errors",
        "source_commits": [],
        "add_only": True,
    },
    "engines": [
        {"name": "check", "path": "check", "serves_properties": sorted(CHECKS), "kind_free_text": "runner: tiers, seeds, sharding over 16 processes, evidence, replay files, known-finding routing"},
    ],
    "checks": [],
    "not_applicable": [],
    "notes": "Technique family: property-based testing and fuzzing (Hypothesis stateful/plain, exhaustive enumeration of finite spaces, schedule-owning deterministic scheduler, fault enumeration). See DESIGN.md.",
}
for p in props:
    pid = p["id"]
    if pid in CHECKS:
        cat, tech, text, note, ref = CHECKS[pid]
        manifest["checks"].append({
            "property_id": pid,
            "quick_cmd": f"./check {pid} --tier quick",
            "thorough_cmd": f"./check {pid} --tier thorough",
            "evidence_file": f"/verif/evidence/{pid}.json",
            "replay_cmd_template": f"./check {pid} --replay {{path}}",
            "engine": "check",
            "level_claimed": {"category": cat, "text": text, "design_ref": ref},
            "level_note": note,
            "technique": tech,
        })
    else:
        manifest["not_applicable"].append({"property_id": pid, "reason": NOT_YET})
(ROOT / "MANIFEST.json").write_text(json.dumps(manifest, indent=1))
try:
    sys.path.insert(0, str(ROOT / ".deps"))
    import jsonschema
    jsonschema.validate(manifest, json.loads(Path("/root/.vp/MANIFEST.schema.json").read_text()))
    print("MANIFEST.json valid;", len(manifest["checks"]), "checks")
except ImportError:
    print("written (jsonschema not available)")
