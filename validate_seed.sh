#!/bin/sh
# ./validate_seed.sh <seeded dir>  -- confirm in a scratch worktree of /repo HEAD:
#   demo passes without the patch, fails with it, and the pinned test suite passes with it.
D="$(cd "$1" && pwd)"; N="$(basename "$D")"
WT="/tmp/validate/$N"
mkdir -p /tmp/validate; rm -rf "$WT"; git -C /repo worktree prune
git -C /repo worktree add --detach "$WT" HEAD -q || exit 2
cd "$WT" || exit 2
run_demo() { if grep -q "^def test_\|^import pytest\|pytest" "$D/demo.py" && ! grep -q '__main__' "$D/demo.py"; then PYTHONPATH="$WT" timeout 600 /venv/bin/python -m pytest -q -p no:cacheprovider -x "$D/demo.py" >/tmp/validate/$N.demo.$1.log 2>&1; else PYTHONPATH="$WT" timeout 600 /venv/bin/python "$D/demo.py" >/tmp/validate/$N.demo.$1.log 2>&1; fi; echo $?; }
A=$(run_demo clean)
if ! git apply "$D/patch.diff"; then echo "$N: PATCH DOES NOT APPLY"; git -C /repo worktree remove --force "$WT"; exit 1; fi
B=$(run_demo patched)
PYTHONPATH="$WT" timeout 3000 /venv/bin/python -m pytest -q -p no:cacheprovider --timeout=900 -x -q >/tmp/validate/$N.suite.log 2>&1; S=$?
SUM=$(grep -E "passed|failed" /tmp/validate/$N.suite.log | tail -1)
echo "$N: demo_clean_rc=$A demo_patched_rc=$B suite_rc=$S :: $SUM" | tee /tmp/validate/$N.result
cd /; git -C /repo worktree remove --force "$WT"
