#!/bin/sh
# ./selftest_all.sh : every check against its seeded changes; summary in seeded/RESULTS.txt
DIR="$(cd "$(dirname "$0")" && pwd)"; cd "$DIR"
: > seeded/RESULTS.txt
for id in C01 C02 C03 C04 C05 C06 C07 C08 C09 C10 C11 C12 C13 C14 C15 C16 C17 C18 C19 C20; do
  ./selftest $id 2>&1 | grep "^CAUGHT\|^MISSED\|^SKIP" | sed "s#$DIR/##" | tee -a seeded/RESULTS.txt
done
echo "caught=$(grep -c '^CAUGHT' seeded/RESULTS.txt) missed=$(grep -c '^MISSED' seeded/RESULTS.txt) skipped=$(grep -c '^SKIP' seeded/RESULTS.txt)" | tee -a seeded/RESULTS.txt
