#!/bin/sh
# ./confirm_suite.sh <seeded dir> : the pinned suite on a scratch worktree with the change applied -> one result line
DIR="$(cd "$(dirname "$0")" && pwd)"
D="$(cd "$1" && pwd)"; N="$(basename "$D")"
WT="/root/scratch/validate/s_$N"; mkdir -p /root/scratch/validate; rm -rf "$WT"
git -C /repo worktree add --detach "$WT" HEAD -q || exit 2
at=HEAD
if ! git -C "$WT" apply "$D/patch.diff" 2>/dev/null; then
  git -C /repo worktree remove --force "$WT"; git -C /repo worktree add --detach "$WT" 05d7c43 -q || exit 2; at=05d7c43
  git -C "$WT" apply "$D/patch.diff" || { echo "$N: PATCH DOES NOT APPLY"; git -C /repo worktree remove --force "$WT"; exit 1; }
fi
(cd "$WT" && env -u PYNENC_VERIF PYTHONPATH="$WT" timeout 3600 /venv/bin/python -m pytest -q -p no:cacheprovider --timeout=900 --continue-on-collection-errors > /root/scratch/validate/$N.suite.log 2>&1)
SUM=$(grep -aE "[0-9]+ passed|[0-9]+ failed" /root/scratch/validate/$N.suite.log | tail -1)
FAILS=$(grep -aE "^(FAILED|ERROR) " /root/scratch/validate/$N.suite.log | cut -c1-160 | tr '\n' ';')
echo "$N: base=$at :: $SUM :: $FAILS"
git -C /repo worktree remove --force "$WT"
