#!/bin/sh
# import wave-2 sub-agent changes from /root/scratch/seed2/<ID>_out/<name>/ into seeded/<ID>-<name>[-w2]/ (idempotent)
for out in /root/scratch/seed3/C*_out; do
  id=$(basename $out _out)
  for d in $out/*/; do
    [ -f "$d/patch.diff" ] || continue
    n=$(basename $d); t="seeded/$id-$n"
    if [ -d "$t" ] && ! cmp -s "$t/patch.diff" "$d/patch.diff"; then t="seeded/$id-$n-w3"; fi
    [ -d "$t" ] && continue
    mkdir -p "$t"; cp "$d/patch.diff" "$d/demo.py" "$d/meta.json" "$t/" 2>/dev/null; echo "imported $t"
  done
done
