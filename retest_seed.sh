#!/bin/sh
# ./retest_seed.sh <seed name> <test ids...> : tests that failed in a loaded suite run, alone, in a patched scratch worktree
N=$1; shift
D=/verif/seeded/$N; WT=/root/scratch/validate/r_$N; mkdir -p /root/scratch/validate; rm -rf $WT; git -C /repo worktree prune
git -C /repo worktree add --detach $WT HEAD -q || exit 2
git -C $WT apply $D/patch.diff 2>/dev/null || { git -C /repo worktree remove --force $WT; git -C /repo worktree add --detach $WT 05d7c43 -q; git -C $WT apply $D/patch.diff; }
(cd $WT && env -u PYNENC_VERIF PYTHONPATH=$WT timeout 1800 /venv/bin/python -m pytest -q -p no:cacheprovider --timeout=600 "$@" 2>&1 | grep -aE "[0-9]+ passed|[0-9]+ failed|[0-9]+ error" | tail -1 | sed "s/^/$N retest: /")
git -C /repo worktree remove --force $WT
