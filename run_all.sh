#!/bin/sh
# ./run_all.sh [tier] [seeds...] : every registered check, sequentially; one summary line per run.
DIR="$(cd "$(dirname "$0")" && pwd)"; cd "$DIR"
TIER="${1:-quick}"; shift; [ $# -eq 0 ] && set -- 1
for seed in "$@"; do
  for id in C01 C02 C03 C04 C05 C06 C07 C08 C09 C10 C11 C12 C13 C14 C15 C16 C17 C18 C19 C20; do
    t0=$(date +%s)
    out=$(VERIF_SEED=$seed ./check $id --tier $TIER 2>&1); rc=$?
    t1=$(date +%s)
    echo "$id seed=$seed tier=$TIER rc=$rc wall=$((t1-t0))s viol=$(echo "$out" | grep -c '^VIOLATION') known=$(echo "$out" | grep -c '^KNOWN-FINDING') :: $(echo "$out" | grep "^\[$id\]" | cut -c1-160)"
    [ $rc -ne 0 ] && echo "$out" | grep -A1 "^VIOLATION\|HARNESS" | head -12
  done
done
