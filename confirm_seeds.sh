#!/bin/sh
# ./confirm_seeds.sh [dir ...] -- for each sub-agent change: scratch worktree of /repo (HEAD, or the commit the
# change was written against when a later repair touched the same lines), demo on the clean worktree (expect 0),
# demo with the patch (expect non-zero).  Results -> seeded/CONFIRM.txt.  Worktrees are removed afterwards.
DIR="$(cd "$(dirname "$0")" && pwd)"
BASE_OLD=05d7c43
[ $# -eq 0 ] && set -- "$DIR"/seeded/*/
mkdir -p /root/scratch/validate
for d in "$@"; do
  D="$(cd "$d" && pwd)"; N="$(basename "$D")"; [ -f "$D/patch.diff" ] || continue
  WT="/root/scratch/validate/$N"; rm -rf "$WT"; git -C /repo worktree prune
  at=HEAD
  git -C /repo worktree add --detach "$WT" HEAD -q || exit 2
  if ! git -C "$WT" apply --check "$D/patch.diff" 2>/dev/null; then
    git -C /repo worktree remove --force "$WT"; git -C /repo worktree add --detach "$WT" $BASE_OLD -q || exit 2; at=$BASE_OLD
  fi
  run_demo() { if grep -q "^def test_" "$D/demo.py" && ! grep -q '__main__' "$D/demo.py"; then (cd "$WT" && PYTHONPATH="$WT" timeout 900 /venv/bin/python -m pytest -q -p no:cacheprovider -x "$D/demo.py" >/root/scratch/validate/$N.demo.$1.log 2>&1; echo $?); else (cd "$WT" && PYTHONPATH="$WT" timeout 900 /venv/bin/python "$D/demo.py" >/root/scratch/validate/$N.demo.$1.log 2>&1; echo $?); fi; }
  A=$(run_demo clean)
  if git -C "$WT" apply "$D/patch.diff" 2>/dev/null; then B=$(run_demo patched); else B="patch-does-not-apply"; fi
  echo "$N: base=$at demo_clean_rc=$A demo_patched_rc=$B"
  git -C /repo worktree remove --force "$WT"
done
