#!/bin/sh
# ./wave4.sh <ID> : import the wave-4 sub-agent change from /root/scratch/w4/<ID>/out into seeded/<ID>-<name>[-w4]/,
# confirm it (demo clean / demo patched / pinned suite, all on scratch worktrees) and run the registered quick check against it.
DIR="$(cd "$(dirname "$0")" && pwd)"; cd "$DIR"
id=$1; out=/root/scratch/w4/$id/out
[ -f "$out/patch.diff" ] || { echo "$id: no patch.diff"; exit 2; }
n=$(/venv/bin/python -c "import json,sys,re; print(re.sub(r'[^a-z0-9-]','-',json.load(open('$out/meta.json')).get('name','w4').lower()))")
t="seeded/$id-$n"; [ -d "$t" ] && ! cmp -s "$t/patch.diff" "$out/patch.diff" && t="$t-w4"
mkdir -p "$t"; cp "$out/patch.diff" "$out/demo.py" "$out/meta.json" "$t/"
c=$(./confirm_seeds.sh "$t")
s=$(./confirm_suite.sh "$t")
k=$(./selftest $id "$t/patch.diff" 2>&1 | head -3 | tr '\n' ' ')
echo "$c || suite: $s || check: $k" | tee -a seeded/W4.txt
